#!/bin/bash
# Build snapsim (driver + simrt + all snapraid objects from /repo's working tree).
# usage: build.sh [plain|san]   -> prints the path of the binary on stdout
# exit 2 on build failure (neither pass nor violation).
set -u
VARIANT=${1:-plain}
REPO=${SNAPSIM_REPO:-/repo}
VERIF=$(cd "$(dirname "$0")/.." && pwd)
SIM=$VERIF/sim

SRCS=$(sed -n '/^snapraid_SOURCES *=/,/^$/p' "$REPO/Makefile.am" | tr -d '\\' | tr ' \t' '\n\n' | grep '\.c$')
if [ -z "$SRCS" ]; then echo "build: cannot parse snapraid_SOURCES" >&2; exit 2; fi

if [ -f "$REPO/config.h" ]; then CFGDIR=$REPO; else CFGDIR=$VERIF/ref; fi

WRAP="open close read write pread pwrite fsync ftruncate fallocate rename remove rmdir mkdir link symlink readlink stat lstat fstat fstatat opendir readdir closedir dirfd utimensat futimens flock statfs access ioctl posix_fadvise sync_file_range time gettimeofday clock_gettime sleep usleep system popen pclose fopen exit malloc pthread_create pthread_join pthread_mutex_init pthread_mutex_destroy pthread_mutex_lock pthread_mutex_unlock pthread_cond_init pthread_cond_destroy pthread_cond_signal pthread_cond_broadcast pthread_cond_wait blkid_get_cache blkid_put_cache blkid_devno_to_devname blkid_get_tag_value io_init"
WRAPFLAGS=""
for s in $WRAP; do WRAPFLAGS="$WRAPFLAGS -Wl,--wrap=$s"; done

case $VARIANT in
plain) CC=gcc; CXX=g++; OPT="-O2 -g"; SAN="";;
san) CC=clang; CXX=clang++; OPT="-O1 -g -fno-omit-frame-pointer"; SAN="-fsanitize=address,undefined -fno-sanitize-recover=undefined -DSIM_SAN=1";;
*) echo "unknown variant" >&2; exit 2;;
esac
RCFLAGS="$OPT $SAN -DHAVE_CONFIG_H -I$CFGDIR -I$REPO -pthread -fno-common -w"
SCFLAGS="$OPT $SAN -pthread -Wall -Wno-unused-function -I$SIM/simrt -I$SIM"

KEY=$( { echo "$VARIANT $RCFLAGS $SCFLAGS $WRAP"; cat "$CFGDIR/config.h"; cd "$REPO" && cat $SRCS cmdline/*.h raid/*.h tommyds/*.h tommyds/*.c cmdline/murmur3.c cmdline/spooky2.c cmdline/metro.c 2>/dev/null; find "$SIM" "$VERIF/ref" -type f \( -name '*.c' -o -name '*.cpp' -o -name '*.h' -o -name '*.hpp' \) | sort | xargs cat; } | sha256sum | cut -c1-20)
BUILD=${SNAPSIM_BUILD_DIR:-$VERIF/build}
OUT=$BUILD/$VARIANT-$KEY
BIN=$OUT/snapsim
mkdir -p "$BUILD"
exec 9>"$BUILD/.lock-$VARIANT"
flock 9
if [ -x "$BIN" ]; then echo "$BIN"; exit 0; fi
# keep the cache small: drop older builds of this variant
for d in "$BUILD"/$VARIANT-*; do [ -d "$d" ] && [ "$d" != "$OUT" ] && rm -rf "$d"; done
mkdir -p "$OUT/obj"
LOG=$OUT/build.log
: > "$LOG"
JOBS=$OUT/jobs.txt
: > "$JOBS"
for s in $SRCS; do
  o=$OUT/obj/$(echo "$s" | tr '/' '_' | sed 's/\.c$/.o/')
  extra=""
  [ "$s" = "cmdline/snapraid.c" ] && extra="-Dmain=snapraid_main"
  echo "$CC $RCFLAGS $extra -c $REPO/$s -o $o" >> "$JOBS"
done
echo "$CC $SCFLAGS -c $SIM/simrt/simrt.c -o $OUT/obj/sim_simrt.o" >> "$JOBS"
for f in "$SIM"/*.cpp "$SIM"/model/*.cpp "$SIM"/families/*.cpp; do
  [ -f "$f" ] || continue
  o=$OUT/obj/drv_$(basename "$f" .cpp).o
  echo "$CXX -std=c++17 $SCFLAGS -c $f -o $o" >> "$JOBS"
done
for f in "$VERIF"/ref/*.c; do
  [ -f "$f" ] || continue
  echo "$CC $OPT $SAN -w -c $f -o $OUT/obj/ref_$(basename "$f" .c).o" >> "$JOBS"
done
if ! xargs -P 16 -I{} sh -c '{} || exit 255' < "$JOBS" >> "$LOG" 2>&1; then
  echo "build: compile failed, see $LOG" >&2; tail -30 "$LOG" >&2; rm -rf "$OUT/obj"; exit 2
fi
# trampolines follow /repo's io.h; fall back to the stub if they do not compile
if ! $CC $RCFLAGS -I$REPO/cmdline -I$SIM/simrt -c "$SIM/simrt/iotramp.c" -o "$OUT/obj/sim_iotramp.o" >> "$LOG" 2>&1; then
  echo "build: iotramp.c does not compile against this tree, using stub" >> "$LOG"
  $CC $SCFLAGS -c "$SIM/simrt/iotramp_stub.c" -o "$OUT/obj/sim_iotramp.o" >> "$LOG" 2>&1 || { echo "build: stub failed" >&2; exit 2; }
fi
if ! $CXX $OPT $SAN -pthread -rdynamic -o "$BIN.tmp" "$OUT"/obj/*.o $WRAPFLAGS -lblkid -lm >> "$LOG" 2>&1; then
  echo "build: link failed, see $LOG" >&2; tail -30 "$LOG" >&2; exit 2
fi
mv "$BIN.tmp" "$BIN"
echo "$BIN"
