/* config.h.  Generated from config.h.in by configure.  */
/* config.h.in.  Generated from configure.ac by autoheader.  */

/* Define if building universal (internal helper macro) */
/* #undef AC_APPLE_UNIVERSAL_BUILD */

/* Define to 1 if you have the `access' function. */
#define HAVE_ACCESS 1

/* Define to 1 if inline assembly should be used. */
#define HAVE_ASSEMBLY 1

/* Define to 1 if avx2 is supported by the assembler. */
#define HAVE_AVX2 1

/* Define to 1 if you have the `backtrace' function. */
#define HAVE_BACKTRACE 1

/* Define to 1 if you have the `backtrace_symbols' function. */
#define HAVE_BACKTRACE_SYMBOLS 1

/* Define to 1 if you have the <blkid/blkid.h> header file. */
#define HAVE_BLKID_BLKID_H 1

/* Define to 1 if you have the `blkid_devno_to_devname' function. */
#define HAVE_BLKID_DEVNO_TO_DEVNAME 1

/* Define to 1 if you have the `blkid_get_tag_value' function. */
#define HAVE_BLKID_GET_TAG_VALUE 1

/* Define to 1 if you have the <byteswap.h> header file. */
#define HAVE_BYTESWAP_H 1

/* Define to 1 if you have the `clock_gettime' function. */
#define HAVE_CLOCK_GETTIME 1

/* Define to 1 if you have the declaration of `statfs', and to 0 if you don't.
   */
#define HAVE_DECL_STATFS 1

/* Define to 1 if you have the <dirent.h> header file, and it defines `DIR'.
   */
#define HAVE_DIRENT_H 1

/* Define to 1 if you have the <execinfo.h> header file. */
#define HAVE_EXECINFO_H 1

/* Define to 1 if you have the `fallocate' function. */
#define HAVE_FALLOCATE 1

/* Define to 1 if you have the <fcntl.h> header file. */
#define HAVE_FCNTL_H 1

/* Define to 1 if you have the `ferror_unlocked' function. */
#define HAVE_FERROR_UNLOCKED 1

/* Define to 1 if you have the `flock' function. */
#define HAVE_FLOCK 1

/* Define to 1 if you have the `fnmatch' function. */
#define HAVE_FNMATCH 1

/* Define to 1 if you have the <fnmatch.h> header file. */
#define HAVE_FNMATCH_H 1

/* Define to 1 if you have the `fstatat' function. */
#define HAVE_FSTATAT 1

/* Define to 1 if you have the `fsync' function. */
#define HAVE_FSYNC 1

/* Define to 1 if you have the `ftruncate' function. */
#define HAVE_FTRUNCATE 1

/* Define to 1 if you have the `futimens' function. */
#define HAVE_FUTIMENS 1

/* Define to 1 if you have the `futimes' function. */
#define HAVE_FUTIMES 1

/* Define to 1 if you have the `futimesat' function. */
#define HAVE_FUTIMESAT 1

/* Define to 1 if you have the `getc_unlocked' function. */
#define HAVE_GETC_UNLOCKED 1

/* Define to 1 if you have the `getopt' function. */
#define HAVE_GETOPT 1

/* Define to 1 if you have the <getopt.h> header file. */
#define HAVE_GETOPT_H 1

/* Define to 1 if you have the `getopt_long' function. */
#define HAVE_GETOPT_LONG 1

/* Define to 1 if you have the `gettimeofday' function. */
#define HAVE_GETTIMEOFDAY 1

/* Define to 1 if you have the <inttypes.h> header file. */
#define HAVE_INTTYPES_H 1

/* Define to 1 if you have the <io.h> header file. */
/* #undef HAVE_IO_H */

/* Define to 1 if you have the <limits.h> header file. */
#define HAVE_LIMITS_H 1

/* Define to 1 if you have the <linux/fiemap.h> header file. */
#define HAVE_LINUX_FIEMAP_H 1

/* Define to 1 if you have the <linux/fs.h> header file. */
#define HAVE_LINUX_FS_H 1

/* Define to 1 if you have the `localtime_r' function. */
#define HAVE_LOCALTIME_R 1

/* Define to 1 if you have the `lutimes' function. */
#define HAVE_LUTIMES 1

/* Define to 1 if you have the `mach_absolute_time' function. */
/* #undef HAVE_MACH_ABSOLUTE_TIME */

/* Define to 1 if you have the <mach/mach_time.h> header file. */
/* #undef HAVE_MACH_MACH_TIME_H */

/* Define to 1 if you have the <math.h> header file. */
#define HAVE_MATH_H 1

/* Define to 1 if you have the `memset' function. */
#define HAVE_MEMSET 1

/* Define to 1 if you have the <minix/config.h> header file. */
/* #undef HAVE_MINIX_CONFIG_H */

/* Define to 1 if you have the `mkdir' function. */
#define HAVE_MKDIR 1

/* Define to 1 if you have the <ndir.h> header file, and it defines `DIR'. */
/* #undef HAVE_NDIR_H */

/* Define to 1 if you have the `posix_fadvise' function. */
#define HAVE_POSIX_FADVISE 1

/* Define to 1 if you have the `pthread_create' function. */
#define HAVE_PTHREAD_CREATE 1

/* Define to 1 if you have the <pthread.h> header file. */
#define HAVE_PTHREAD_H 1

/* Define to 1 if you have the `sigaction' function. */
#define HAVE_SIGACTION 1

/* Define to 1 if you have the `snprintf' function. */
#define HAVE_SNPRINTF 1

/* Define to 1 if sse2 is supported by the assembler. */
#define HAVE_SSE2 1

/* Define to 1 if sse4.2 is supported by the assembler. */
#define HAVE_SSE42 1

/* Define to 1 if ssse3 is supported by the assembler. */
#define HAVE_SSSE3 1

/* Define to 1 if you have the `statfs' function. */
#define HAVE_STATFS 1

/* Define to 1 if you have the <stddef.h> header file. */
#define HAVE_STDDEF_H 1

/* Define to 1 if you have the <stdint.h> header file. */
#define HAVE_STDINT_H 1

/* Define to 1 if you have the <stdio.h> header file. */
#define HAVE_STDIO_H 1

/* Define to 1 if you have the <stdlib.h> header file. */
#define HAVE_STDLIB_H 1

/* Define to 1 if you have the `strchr' function. */
#define HAVE_STRCHR 1

/* Define to 1 if you have the `strerror' function. */
#define HAVE_STRERROR 1

/* Define to 1 if you have the <strings.h> header file. */
#define HAVE_STRINGS_H 1

/* Define to 1 if you have the <string.h> header file. */
#define HAVE_STRING_H 1

/* Define to 1 if you have the `strrchr' function. */
#define HAVE_STRRCHR 1

/* Define to 1 if you have the `strtoul' function. */
#define HAVE_STRTOUL 1

/* Define to 1 if `d_ino' is a member of `struct dirent'. */
#define HAVE_STRUCT_DIRENT_D_INO 1

/* Define to 1 if `d_type' is a member of `struct dirent'. */
#define HAVE_STRUCT_DIRENT_D_TYPE 1

/* Define to 1 if `f_fstypename' is a member of `struct statfs'. */
/* #undef HAVE_STRUCT_STATFS_F_FSTYPENAME */

/* Define to 1 if `f_type' is a member of `struct statfs'. */
#define HAVE_STRUCT_STATFS_F_TYPE 1

/* Define to 1 if `st_mtimensec' is a member of `struct stat'. */
/* #undef HAVE_STRUCT_STAT_ST_MTIMENSEC */

/* Define to 1 if `st_mtimespec.tv_nsec' is a member of `struct stat'. */
/* #undef HAVE_STRUCT_STAT_ST_MTIMESPEC_TV_NSEC */

/* Define to 1 if `st_mtim.tv_nsec' is a member of `struct stat'. */
#define HAVE_STRUCT_STAT_ST_MTIM_TV_NSEC 1

/* Define to 1 if `st_nlink' is a member of `struct stat'. */
#define HAVE_STRUCT_STAT_ST_NLINK 1

/* Define to 1 if you have the `sync_file_range' function. */
#define HAVE_SYNC_FILE_RANGE 1

/* Define to 1 if you have the <sys/dir.h> header file, and it defines `DIR'.
   */
/* #undef HAVE_SYS_DIR_H */

/* Define to 1 if you have the <sys/file.h> header file. */
#define HAVE_SYS_FILE_H 1

/* Define to 1 if you have the <sys/ioctl.h> header file. */
#define HAVE_SYS_IOCTL_H 1

/* Define to 1 if you have the <sys/mkdev.h> header file. */
/* #undef HAVE_SYS_MKDEV_H */

/* Define to 1 if you have the <sys/mount.h> header file. */
/* #undef HAVE_SYS_MOUNT_H */

/* Define to 1 if you have the <sys/ndir.h> header file, and it defines `DIR'.
   */
/* #undef HAVE_SYS_NDIR_H */

/* Define to 1 if you have the <sys/param.h> header file. */
/* #undef HAVE_SYS_PARAM_H */

/* Define to 1 if you have the <sys/statfs.h> header file. */
#define HAVE_SYS_STATFS_H 1

/* Define to 1 if you have the <sys/stat.h> header file. */
#define HAVE_SYS_STAT_H 1

/* Define to 1 if you have the <sys/sysmacros.h> header file. */
#define HAVE_SYS_SYSMACROS_H 1

/* Define to 1 if you have the <sys/time.h> header file. */
#define HAVE_SYS_TIME_H 1

/* Define to 1 if you have the <sys/types.h> header file. */
#define HAVE_SYS_TYPES_H 1

/* Define to 1 if you have the <sys/vfs.h> header file. */
#define HAVE_SYS_VFS_H 1

/* Define to 1 if you have <sys/wait.h> that is POSIX.1 compatible. */
#define HAVE_SYS_WAIT_H 1

/* Define to 1 if you have the <time.h> header file. */
#define HAVE_TIME_H 1

/* Define to 1 if you have the <unistd.h> header file. */
#define HAVE_UNISTD_H 1

/* Define to 1 if you have the `utimensat' function. */
#define HAVE_UTIMENSAT 1

/* Define to 1 if you have the `vsnprintf' function. */
#define HAVE_VSNPRINTF 1

/* Define to 1 if you have the <wchar.h> header file. */
#define HAVE_WCHAR_H 1

/* Define to 1 if assertions should be disabled. */
/* #undef NDEBUG */

/* Name of package */
#define PACKAGE "snapraid"

/* Define to the address where bug reports for this package should be sent. */
#define PACKAGE_BUGREPORT ""

/* Define to the full name of this package. */
#define PACKAGE_NAME "snapraid"

/* Define to the full name and version of this package. */
#define PACKAGE_STRING "snapraid none"

/* Define to the one symbol short name of this package. */
#define PACKAGE_TARNAME "snapraid"

/* Define to the home page for this package. */
#define PACKAGE_URL "http://www.snapraid.it"

/* Define to the version of this package. */
#define PACKAGE_VERSION "none"

/* Define to 1 if all of the C90 standard headers exist (not just the ones
   required in a freestanding environment). This macro is provided for
   backward compatibility; new code need not use it. */
#define STDC_HEADERS 1

/* Enable extensions on AIX 3, Interix.  */
#ifndef _ALL_SOURCE
# define _ALL_SOURCE 1
#endif
/* Enable general extensions on macOS.  */
#ifndef _DARWIN_C_SOURCE
# define _DARWIN_C_SOURCE 1
#endif
/* Enable general extensions on Solaris.  */
#ifndef __EXTENSIONS__
# define __EXTENSIONS__ 1
#endif
/* Enable GNU extensions on systems that have them.  */
#ifndef _GNU_SOURCE
# define _GNU_SOURCE 1
#endif
/* Enable X/Open compliant socket functions that do not require linking
   with -lxnet on HP-UX 11.11.  */
#ifndef _HPUX_ALT_XOPEN_SOCKET_API
# define _HPUX_ALT_XOPEN_SOCKET_API 1
#endif
/* Identify the host operating system as Minix.
   This macro does not affect the system headers' behavior.
   A future release of Autoconf may stop defining this macro.  */
#ifndef _MINIX
/* # undef _MINIX */
#endif
/* Enable general extensions on NetBSD.
   Enable NetBSD compatibility extensions on Minix.  */
#ifndef _NETBSD_SOURCE
# define _NETBSD_SOURCE 1
#endif
/* Enable OpenBSD compatibility extensions on NetBSD.
   Oddly enough, this does nothing on OpenBSD.  */
#ifndef _OPENBSD_SOURCE
# define _OPENBSD_SOURCE 1
#endif
/* Define to 1 if needed for POSIX-compatible behavior.  */
#ifndef _POSIX_SOURCE
/* # undef _POSIX_SOURCE */
#endif
/* Define to 2 if needed for POSIX-compatible behavior.  */
#ifndef _POSIX_1_SOURCE
/* # undef _POSIX_1_SOURCE */
#endif
/* Enable POSIX-compatible threading on Solaris.  */
#ifndef _POSIX_PTHREAD_SEMANTICS
# define _POSIX_PTHREAD_SEMANTICS 1
#endif
/* Enable extensions specified by ISO/IEC TS 18661-5:2014.  */
#ifndef __STDC_WANT_IEC_60559_ATTRIBS_EXT__
# define __STDC_WANT_IEC_60559_ATTRIBS_EXT__ 1
#endif
/* Enable extensions specified by ISO/IEC TS 18661-1:2014.  */
#ifndef __STDC_WANT_IEC_60559_BFP_EXT__
# define __STDC_WANT_IEC_60559_BFP_EXT__ 1
#endif
/* Enable extensions specified by ISO/IEC TS 18661-2:2015.  */
#ifndef __STDC_WANT_IEC_60559_DFP_EXT__
# define __STDC_WANT_IEC_60559_DFP_EXT__ 1
#endif
/* Enable extensions specified by ISO/IEC TS 18661-4:2015.  */
#ifndef __STDC_WANT_IEC_60559_FUNCS_EXT__
# define __STDC_WANT_IEC_60559_FUNCS_EXT__ 1
#endif
/* Enable extensions specified by ISO/IEC TS 18661-3:2015.  */
#ifndef __STDC_WANT_IEC_60559_TYPES_EXT__
# define __STDC_WANT_IEC_60559_TYPES_EXT__ 1
#endif
/* Enable extensions specified by ISO/IEC TR 24731-2:2010.  */
#ifndef __STDC_WANT_LIB_EXT2__
# define __STDC_WANT_LIB_EXT2__ 1
#endif
/* Enable extensions specified by ISO/IEC 24747:2009.  */
#ifndef __STDC_WANT_MATH_SPEC_FUNCS__
# define __STDC_WANT_MATH_SPEC_FUNCS__ 1
#endif
/* Enable extensions on HP NonStop.  */
#ifndef _TANDEM_SOURCE
# define _TANDEM_SOURCE 1
#endif
/* Enable X/Open extensions.  Define to 500 only if necessary
   to make mbstate_t available.  */
#ifndef _XOPEN_SOURCE
/* # undef _XOPEN_SOURCE */
#endif


/* Version number of package */
#define VERSION "none"

/* Define WORDS_BIGENDIAN to 1 if your processor stores words with the most
   significant byte first (like Motorola and SPARC, unlike Intel). */
#if defined AC_APPLE_UNIVERSAL_BUILD
# if defined __BIG_ENDIAN__
#  define WORDS_BIGENDIAN 1
# endif
#else
# ifndef WORDS_BIGENDIAN
/* #  undef WORDS_BIGENDIAN */
# endif
#endif

/* Number of bits in a file offset, on hosts where this is settable. */
/* #undef _FILE_OFFSET_BITS */

/* Define for large files, on AIX-style hosts. */
/* #undef _LARGE_FILES */

/* Define for Solaris 2.5.1 so the uint32_t typedef from <sys/synch.h>,
   <pthread.h>, or <semaphore.h> is not used. If the typedef were allowed, the
   #define below would cause a syntax error. */
/* #undef _UINT32_T */

/* Define for Solaris 2.5.1 so the uint64_t typedef from <sys/synch.h>,
   <pthread.h>, or <semaphore.h> is not used. If the typedef were allowed, the
   #define below would cause a syntax error. */
/* #undef _UINT64_T */

/* Define for Solaris 2.5.1 so the uint8_t typedef from <sys/synch.h>,
   <pthread.h>, or <semaphore.h> is not used. If the typedef were allowed, the
   #define below would cause a syntax error. */
/* #undef _UINT8_T */

/* Define to empty if `const' does not conform to ANSI C. */
/* #undef const */

/* Define to `__inline__' or `__inline' if that's what the C compiler
   calls it, or to nothing if 'inline' is not supported under any name.  */
#ifndef __cplusplus
/* #undef inline */
#endif

/* Define to the type of a signed integer type of width exactly 8 bits if such
   a type exists and the standard includes do not define it. */
/* #undef int8_t */

/* Define to `long int' if <sys/types.h> does not define. */
/* #undef off_t */

/* Define to the equivalent of the C99 'restrict' keyword, or to
   nothing if this is not supported.  Do not define if restrict is
   supported only directly.  */
#define restrict __restrict__
/* Work around a bug in older versions of Sun C++, which did not
   #define __restrict__ or support _Restrict or __restrict__
   even though the corresponding Sun C compiler ended up with
   "#define restrict _Restrict" or "#define restrict __restrict__"
   in the previous line.  This workaround can be removed once
   we assume Oracle Developer Studio 12.5 (2016) or later.  */
#if defined __SUNPRO_CC && !defined __RESTRICT && !defined __restrict__
# define _Restrict
# define __restrict__
#endif

/* Define to `unsigned int' if <sys/types.h> does not define. */
/* #undef size_t */

/* Define to `int' if <sys/types.h> does not define. */
/* #undef ssize_t */

/* Define to the type of an unsigned integer type of width exactly 32 bits if
   such a type exists and the standard includes do not define it. */
/* #undef uint32_t */

/* Define to the type of an unsigned integer type of width exactly 64 bits if
   such a type exists and the standard includes do not define it. */
/* #undef uint64_t */

/* Define to the type of an unsigned integer type of width exactly 8 bits if
   such a type exists and the standard includes do not define it. */
/* #undef uint8_t */

/* Define to empty if the keyword `volatile' does not work. Warning: valid
   code using `volatile' can become incorrect without. Disable with care. */
/* #undef volatile */
