/*
 * Reference block hashes: the pinned-version murmur3.c / spooky2.c (copied verbatim into
 * murmur3_pinned.inc / spooky2_pinned.inc) under other symbol names.  Per property C16 the
 * reference version defines the correct hash, so this is an oracle, not code under test.
 */
#include <stdint.h>
#include <string.h>
#include <stddef.h>

static inline uint32_t util_rotl32(uint32_t x, int8_t r) { return (x << r) | (x >> (32 - r)); }
static inline uint64_t util_rotl64(uint64_t x, int8_t r) { return (x << r) | (x >> (64 - r)); }
static inline uint64_t util_rotr64(uint64_t x, int8_t r) { return (x >> r) | (x << (64 - r)); }
#define util_swap32(x) __builtin_bswap32(x)
#define util_swap64(x) __builtin_bswap64(x)
static inline uint8_t util_read8(const void* p) { return *(const uint8_t*)p; }
static inline uint32_t util_read32(const void* ptr) { uint32_t v; memcpy(&v, ptr, sizeof(v)); return v; }
static inline uint64_t util_read64(const void* ptr) { uint64_t v; memcpy(&v, ptr, sizeof(v)); return v; }
static inline void util_write32(void* ptr, uint32_t v) { memcpy(ptr, &v, sizeof(v)); }
static inline void util_write64(void* ptr, uint64_t v) { memcpy(ptr, &v, sizeof(v)); }

#define MurmurHash3_x86_128 ref_MurmurHash3_x86_128
#define SpookyHash128 ref_SpookyHash128
#define fmix32 ref_fmix32
#define c1 ref_c1
#define c2 ref_c2
#define c3 ref_c3
#define c4 ref_c4
#include "murmur3_pinned.inc"
#include "spooky2_pinned.inc"

/* kind: 'u' murmur3, 'k' spooky2; digest: 16 bytes */
int ref_block_hash(char kind, const unsigned char* seed, const void* data, size_t size, unsigned char* digest)
{
	if (kind == 'u') { ref_MurmurHash3_x86_128(data, size, seed, digest); return 0; }
	if (kind == 'k') { ref_SpookyHash128(data, size, seed, digest); return 0; }
	return -1;
}
