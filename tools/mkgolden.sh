#!/bin/bash
# Regenerate the golden corpus (/verif/golden) with the REFERENCE version of snapraid: the pinned commit the properties
# were written against, checked out into a scratch worktree and linked into this same simulator.
# Only needed when the corpus format changes; the committed corpus is what the C16 check uses.
set -eu
VERIF=$(cd "$(dirname "$0")/.." && pwd)
REF=${1:-e695936}
N=${2:-60}
WT=/tmp/wt/golden-ref
rm -rf "$WT"
git -C /repo worktree prune
git -C /repo worktree add --detach "$WT" "$REF" >/dev/null
trap 'git -C /repo worktree remove --force "$WT"; rm -rf /tmp/wt/golden-build' EXIT
# separate cache directory so the build of /repo's working tree is not evicted
mkdir -p /tmp/wt/golden-build
BIN=$(SNAPSIM_REPO="$WT" SNAPSIM_BUILD_DIR=/tmp/wt/golden-build "$VERIF/bin/build.sh" plain)
rm -rf "$VERIF/golden.new"
"$BIN" mkgolden "$VERIF/golden.new" "$N" "$(git -C /repo rev-parse --short "$REF")"
rm -rf "$VERIF/golden"
mv "$VERIF/golden.new" "$VERIF/golden"
du -sh "$VERIF/golden"
