#!/bin/bash
# Re-run every kept seeded change (seeded/<id>/patch.diff) against the checks recorded in its meta.json
# (verification.checks_run_against_patch): apply to /repo, run the quick checks into a scratch output dir, revert.
# Prints one line per (seed, check): CAUGHT / MISSED.   usage: regress_seeds.sh [id...]
VERIF=$(cd "$(dirname "$0")/.." && pwd)
OUT=/tmp/seedout
cd /repo
git status --short | grep -v '^??' && { echo "/repo not clean"; exit 2; }
ids=${@:-$(ls "$VERIF/seeded")}
rc=0
for id in $ids; do
  S=$VERIF/seeded/$id
  [ -f "$S/patch.diff" ] || continue
  checks=$(python3 -c "import json;print(' '.join(json.load(open('$S/meta.json')).get('verification',{}).get('checks_run_against_patch',[])))")
  git apply --check "$S/patch.diff" 2>/dev/null || { echo "$id: patch does not apply"; rc=1; continue; }
  git apply "$S/patch.diff"
  for c in $checks; do
    rm -rf $OUT
    res=$(cd "$VERIF" && SNAPSIM_OUT=$OUT timeout 3000 bin/check $c quick 2>&1 | grep -c "^VIOLATION property=$c ")
    if [ "$res" -gt 0 ]; then echo "$id $c CAUGHT"; else echo "$id $c MISSED"; rc=1; fi
  done
  git checkout -- .
done
rm -rf $OUT
exit $rc
