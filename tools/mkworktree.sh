#!/bin/bash
# usage: mkworktree.sh <name>  -> creates /tmp/wt/<name>: a git worktree of /repo HEAD, configured and built
set -e
N=$1
D=/tmp/wt/$N
mkdir -p /tmp/wt
git -C /repo worktree remove --force "$D" 2>/dev/null || true
rm -rf "$D"
git -C /repo worktree add --detach "$D" HEAD >/dev/null 2>&1
cd /repo
for f in configure Makefile.in config.h.in aclocal.m4 compile missing install-sh config.guess config.sub depcomp ar-lib test-driver; do
  [ -e "$f" ] && cp -a "$f" "$D/" || true
done
cd "$D"
(./configure >/dev/null 2>&1 && make -j4 >/dev/null 2>&1) || { echo "build failed in $D"; exit 1; }
echo "$D ready"
