#!/usr/bin/env python3
"""Regenerates /verif/MANIFEST.json from the table below (one entry per claimed property)."""
import json, os, subprocess

HERE = os.path.dirname(os.path.dirname(os.path.abspath(__file__)))
TB = ("all snapraid objects are real code compiled from /repo's working tree; trusted: kernel tmpfs, the simulator runtime (sim/simrt), "
      "the independent oracles (content decoder, GF(2^8) generator, pinned reference hashes, version store); crash model = process death (completed calls persist)")

CHECKS = {
 "C01": dict(level="exploration", family="recover", ref="6.1",
   technique="deterministic simulation: seeded sync histories + seeded device-loss/damage faults, byte+mtime snapshot oracle",
   text="Seeded search over configurations, sync histories and damage sets with <= N damaged blocks per stripe; after fix the data disks are compared byte+mtime with the harness snapshot taken at sync time and a following check must be clean. Sampling, not proof: right level because the space (trees x configs x histories x damage sets) is unbounded."),
 "C06": dict(level="exploration", family="parity-inv", ref="6.4",
   technique="deterministic simulation: seeded command/mutation histories under seeded thread schedules, independent parity oracle after every command + fsync-before-rename history check",
   text="After every single command of seeded histories the content file is decoded by an independent parser and every stripe recorded as synced is recomputed with an independent GF(2^8) generator from the harness copy of the recorded file versions; map invariants checked too. The crash family adds the same oracle at every kill point (reported under C07 as well)."),
 "C07": dict(level="fault_enumeration", family="crash", ref="6.5",
   technique="deterministic simulation: process death enumerated at every state-changing system call (before/after/torn) and signals at every I/O, same schedule replayed from a restored pre-state",
   text="Per scenario the kill points of one sync/fix execution are enumerated (quick: all points in the content save/rename and parity resize windows + a stride; thorough: all). After each interruption: data untouched, content copies complete, parity oracle, state loads, sync again + check + diff clean, previously synced files recoverable after losing a disk (additions-only), fix;kill;fix == fix."),

 "C04": dict(level="fault_enumeration", family="silent", ref="6.2",
   technique="deterministic simulation: flipped-stored-byte faults enumerated over every data block and every parity block of seeded synced arrays, log-tag/bad-mark oracle",
   text="Per seeded synced array the corruption targets (every file block incl. the last partial one, every parity block of every level of every used stripe) are enumerated and damaged (1 bit / 1 byte / whole block / zeroing, stamp restored, alone or combined); check -a, check, scrub full and scrub 100% must name exactly the damaged locations, fail, and scrub must mark exactly those stripes bad (decoded content and status -G); undamaged control runs must stay silent. On partly synced arrays and arrays with files changed after the last sync, the synced blocks of unchanged files (also in stripes other disks made unsynced) and the parity of fully synced stripes are damaged too; report, location, failing status and bad mark are judged there."),
 "C08": dict(level="fault_enumeration", family="ioerr", ref="6.6",
   technique="deterministic simulation: EIO/ENOSPC injected at every logical data/parity read and parity write of sync and scrub (addressed by file+offset), under io-cache depths 1..128 and seeded schedules",
   text="The I/O targets of a scenario are read off a fault-free trace and each fails once (alone or in pairs) under several cache depths and schedules; judged by exit status, diagnostics, summary:error_io, the state of the hit stripe in the decoded content against the independent parity oracle, the other stripes, and the fix -e / sync / scrub -p bad repair path."),
 "C09": dict(level="fault_enumeration", family="content-damage", ref="6.7",
   technique="deterministic simulation: flipped/truncated stored bytes of content files from simulated histories loaded under ASan+UBSan with small stream buffers; kills enumerated inside save-verify-rename",
   text="(a) every sampled (quick) or every single (thorough) bit flip, byte substitution and truncation length of content files of all shapes is installed as the first copy and loaded by status/diff/list/check/sync/scrub in the sanitizer build with the stream buffer size as a knob: must stop with an error, modify nothing, no sanitizer report. (b) the crash family kills at every mutation of the save-verify-rename sequence: each present copy must be a complete (checksum-valid) file and after a command that saved all copies are byte-identical."),
 "C11": dict(level="exploration", family="converge", ref="6.9",
   technique="deterministic simulation: seeded file-system change histories with virtual inodes (reuse, restore), seeded directory order and scan-thread schedules; reference comparison of decoded content vs a walk of the disks",
   text="Seeded histories of the listed file-system operations between syncs under all scan orders, with/without UUIDs, parallel/sequential scans. Before each sync the diff verdict must match the comparison of the decoded content with a walk of the disks (and the incomplete-sync rule); after a successful complete sync every new/changed file was read, content == disks, diff 0, list == disks, check 0."),
 "C12": dict(level="exploration", family="footprint", ref="6.10",
   technique="deterministic simulation: every mutating system call of every simulated command checked against a per-command write policy, plus before/after snapshots of data, parity, content and pool around every command of the footprint family",
   text="The file layer sees every mutating call, so the write policy is evaluated over the trace of every command of seven families (incl. killed and failing commands); the footprint family adds all read-only commands with options, scrub plans, touch, pool, rehash and filtered fix on healthy/unsynced/damaged/partially lost arrays with a byte+mtime+inode snapshot diff judged per command."),
 "C13": dict(level="exploration", family="sched", ref="6.11",
   technique="deterministic simulation: every thread interleaving decision (mutex/cond/join, wake-up choice, spurious wake-ups, timers) taken by a seeded scheduler; differential single-threaded vs threaded runs and a buffer-ownership state machine over io.c hand-over events obtained by link-time trampolines",
   text="Each scenario runs without worker threads and then under cache depths 3..128 and seven scheduling policies with spurious wake-ups: parity, content, error set, scan classification, exit status and stripe order must be identical; ownership/exactly-once monitors run on every threaded command; deadlock and step bound are detected by the scheduler. Data races between two yield points are outside what a serialising scheduler can see."),
 "C05": dict(level="exploration", family="fixsafe", ref="6.3",
   technique="deterministic simulation: sync histories disturbed by concurrent-change and I/O faults at the first open of a file, kills after the parity update, unlimited damage, filtered fix; per-file oracle against the harness version store",
   text="Seeded histories leave pending/replaced/deleted blocks behind (partial syncs, syncs during which a file changes or becomes unreadable exactly when sync opens it, sync killed after the parity update), then damage without per-stripe budget and fix with random filters. Every recorded file must hold the recorded bytes (blocks matched by recorded hash) or be reported unrecoverable with failing status; 'recovered' implies correct; nothing unreported and no unknown file is written."),
 "C14": dict(level="exploration", family="interlock", ref="6.12",
   technique="deterministic simulation: interlock triggers applied to seeded synced arrays; two-process interleaving at system-call granularity for the lock (first command parked by the file layer at a mutation index)",
   text="Each documented trigger (disk emptied / rewritten, file zeroed, parity deleted or halved, blocksize / hashsize changed, disk dropped from the configuration), alone or mixed with ordinary changes, must make sync fail with content and parity byte-identical, and proceed with its override. For the lock the first command is parked at seeded mutation indexes while a second command of every kind runs as a real second process: it must be refused with the 'already in use' diagnostic and issue no mutating call whenever the lock is held."),
 "C10": dict(level="exploration", family="roundtrip", ref="6.8",
   technique="deterministic simulation: array states reached by simulated histories (interrupted/partial syncs, scrubs, hash migration, marks) re-written and re-loaded; independent content decoder/encoder as reference model",
   text="After every command of seeded histories test-rewrite must reproduce each content copy byte for byte, the independent decoder's view must equal list -l and status -G -l, and every copy alone must give the same dumps; content files synthesised by the independent encoder (validated byte-for-byte against every tool-written file of the run) with values at varint boundaries must be rewritten identically. The synthesis part is plain input generation."),
 "C15": dict(level="exploration", family="scrubplan", ref="6.13",
   technique="deterministic simulation: the clock is owned by the simulator, per-stripe ages come from history; the verified set is read off the io.c hand-over trace; plan predicates and bookkeeping checked against the decoded content",
   text="Per-stripe check times are produced by syncs and scrubs at chosen simulated times (ties, 8 s granularity, backward clock steps), bad marks by injected silent errors, unsynced stripes by files changed after the sync. For every plan the set of verified stripes (from the trace, not from scrub's report) must satisfy the plan predicates, and the decoded content afterwards must show time refreshed / marks cleared exactly on stripes verified correct, bad exactly on silent errors, everything else untouched; 13 default scrubs 11 simulated days apart must cover a synced array."),
 "C20": dict(level="exploration", family="views", ref="6.17",
   technique="deterministic simulation: recorded states from simulated histories with arbitrary-byte names, duplicate groups and pre-populated pool directories; reference model (decoded content + harness file copies) vs parsed tool output",
   text="On recorded states reached by seeded histories, list, status (counters, per-stripe dump, named files), dup and pool are compared with a reference computed from the independently decoded content file and the harness copy of the file contents: exact file/link sets with names inverted through the tag escaping, exact duplicate partition, exact pool tree (one link per recorded entry, first disk wins, stale links and empty dirs gone, foreign files kept)."),
 "C16": dict(level="exploration", family="golden", ref="6.13",
   technique="deterministic simulation over a stored corpus: arrays written by the reference commit inside this simulator (golden/, regenerated by tools/mkgolden.sh) are handed to the current code under seeded schedules, short reads, small stream buffers and device/block loss; oracles: clean verification, C01 restoration oracle, field-by-field comparison of re-saved content through the independent decoder, pinned reference hashes and GF(2^8) parity oracle",
   text="46 reference arrays (both hash kinds x 1-6 levels and z mode x plain / split-with-limit / hash sizes 8,4,2 / 4 KiB blocks, histories with holes, moved blocks, links, scrub info) and two vector arrays with one file of every length 0..1100: with the current code check, check -a and scrub -p full are clean; after losing up to np devices or scattered blocks fix restores every byte; after the current code saves the array again (scrub, or sync after changes) every untouched file keeps the hash, size, stamp and position the reference version recorded; content format v2 input is covered by the C10 synth op, not by the corpus (the reference version writes one format)."),
 "C17": dict(level="exploration", family="split", ref="6.14",
   technique="deterministic simulation: twin arrays (single-file parity vs 2-8 split files limited by --test-parity-limit or by device byte budgets giving real ENOSPC) driven through the same seeded histories of growth, shrinkage, split removal/addition, disk loss and crash points; independent content decoder + GF(2^8) parity oracle through the recorded split map; byte comparison of concatenated splits with the twin",
   text="After every pair of syncs the recorded split sizes are block multiples, files are at least that long, no split is used after an empty one, an inner split keeps its size while the next one stays in use, sizes cover the array, and concat(splits truncated to their recorded sizes) equals the single-file parity of the twin on every used stripe of every level. The always-on parity oracle addresses parity through the split map. The documented refusals (insufficient parity space, used split removed from the configuration) change nothing. Fix after losing a split file or a data disk restores everything and check is clean; crash sweeps of syncs that move the split boundary keep the C06/C07 guarantees."),
 "C19": dict(level="exploration", family="decoy", ref="6.16",
   technique="deterministic simulation: histories with decoys (same name/size/stamp, other bytes), honest copies, aborted syncs, import directories; reference hashes + independent parity oracle on every recorded block, fix bytes against the harness copy",
   text="Decoys and honest copies appear next to fully or partially hashed recorded files, followed by sync variants (plain, pre-hash, --force-nocopy, partial, killed after the parity update): after every command the reference hash of every block recorded as synced must equal the recorded hash and the parity oracle must hold; a decoy taken for a copy must be reported and fail a complete sync; pre-hash must leave parity untouched. With a recorded file lost and decoys on other disks and in -i / --test-import-content directories, fix must produce the recorded bytes or report the file unrecoverable; check must write nothing."),
}
NA = [
 ("C02", "pure function of (nd, np, size, buffers, variant): no schedule, clock, fault, crash point or history for a simulator to own"),
 ("C03", "pure function (erasure decoding / matrix minors): no schedule, clock, fault, crash point or history for a simulator to own"),
 ("C18", "pure function of (rule list, path tree, options); its I/O-facing halves are exercised inside the C11/C05/C12 families"),
]

ALL = ["C%02d" % i for i in range(1, 21)]

def main():
    checks = []
    for pid in sorted(CHECKS):
        c = CHECKS[pid]
        checks.append({
            "property_id": pid,
            "quick_cmd": "bin/check %s quick" % pid,
            "thorough_cmd": "bin/check %s thorough" % pid,
            "evidence_file": "/verif/evidence/%s.json" % pid,
            "replay_cmd_template": "bin/replay {path}",
            "engine": "snapsim",
            "level_claimed": {"category": c["level"], "text": c["text"], "design_ref": "DESIGN.md section " + c["ref"]},
            "level_note": TB,
            "technique": c["technique"],
        })
    na = [{"property_id": p, "reason": r} for p, r in NA]
    claimed = set(CHECKS) | set(p for p, _ in NA)
    for pid in ALL:
        if pid not in claimed:
            na.append({"property_id": pid, "reason": "not claimed yet: the family that decides it is designed (DESIGN.md section 6) but not built/validated in this revision"})
    hooks = subprocess.run(["git", "-C", "/repo", "log", "--format=%h %s", "e695936..HEAD"], capture_output=True, text=True).stdout
    m = {
        "version": 1,
        "setup_cmd": "bin/setup",
        "hooks": {
            "guard": "SNAPRAID_VERIF",
            "enable": "no source hooks exist: every seam is link-time (GNU ld --wrap over the objects compiled from /repo's working tree, see bin/build.sh); the guard name is reserved and unused",
            "baseline_off_cmd": "cd /repo && make check",
            "source_commits": [],
            "add_only": True
        },
        "engines": [{"name": "snapsim", "path": "/verif/sim", "serves_properties": sorted(CHECKS), "kind_free_text": "deterministic whole-program simulator: snapraid objects + link-time wrapped libc/pthread/blkid, seeded scheduler, fault injection, independent oracles"}],
        "checks": checks,
        "not_applicable": na,
        "notes": "fix: commits in /repo (unguarded repairs of genuine defects, see known_findings.json): " + "; ".join(l for l in hooks.strip().split("\n") if l)
    }
    json.dump(m, open(os.path.join(HERE, "MANIFEST.json"), "w"), indent=1)
    print("wrote MANIFEST.json with", len(checks), "checks")

main()
