#!/bin/bash
# usage: try_seed.sh <worktree name e.g. m06> <seed id e.g. C06-a> <check ids...>
# verifies the demo on the patched and the base tree, then applies the patch to /repo, runs the given checks, and reverts /repo.
W=$1; ID=$2; shift 2
S=/tmp/wt/$W/_seed
[ -f $S/patch.diff ] || { echo "no patch"; exit 1; }
mkdir -p /verif/seeded/$ID
cp -a $S/. /verif/seeded/$ID/
echo "== demo on patched tree"; (cd /tmp && timeout 600 bash $S/demo.sh /tmp/wt/$W >/tmp/demo_p.log 2>&1; echo "exit=$?")
if [ -d /tmp/wt/base ]; then echo "== demo on base tree"; (cd /tmp && timeout 600 bash $S/demo.sh /tmp/wt/base >/tmp/demo_b.log 2>&1; echo "exit=$?"); elif [ -d /tmp/wt/${W}_base ]; then echo "== demo on base tree"; (cd /tmp && timeout 600 bash $S/demo.sh /tmp/wt/${W}_base >/tmp/demo_b.log 2>&1; echo "exit=$?"); else echo "no base tree: building"; /verif/tools/mkworktree.sh ${W}_base >/dev/null; (cd /tmp && timeout 600 bash $S/demo.sh /tmp/wt/${W}_base >/tmp/demo_b.log 2>&1; echo "exit=$?"); fi
cd /repo
git status --short | grep -v '^??' && { echo "/repo not clean"; exit 1; }
git apply --check $S/patch.diff || { echo "patch does not apply to /repo"; exit 1; }
git apply $S/patch.diff
for c in "$@"; do
  echo "== check $c on the patched /repo"
  (cd /verif && SNAPSIM_OUT=/tmp/seedout timeout 1800 bin/check $c quick 2>&1 | grep -v "^KNOWN" | cut -c1-400 | grep "VIOLATION\|^  class\|^check\|HARNESS\|own-violation" | head -12)
done
git checkout -- .
git status --short | grep -v '^??'
echo "== /repo reverted"
