#!/bin/bash
# usage: mkprompt.sh <wt> <property id>
W=$1; P=$2
T=$(jq -r "select(.id==\"$P\") | \"Title: \(.title)\n\nStatement: \(.statement)\n\nQuantifier: \(.quantifier.text)\"" /verif/properties.jsonl)
cat > /tmp/wt/prompt_$W.txt <<EOP
You are helping test a verification effort for SnapRAID (a C backup/parity tool). You have your own scratch git worktree of the repository at /tmp/wt/$W (already configured and built: ./configure && make were run there; the binary is /tmp/wt/$W/snapraid). Work ONLY inside /tmp/wt/$W. Do not read or touch /repo, /verif or any other directory under /tmp/wt.

Here is a semantic property that SnapRAID is supposed to satisfy:

$T

Your task: make ONE small, realistic-looking change to the SnapRAID sources (cmdline/*.c, raid/*.c etc.) in /tmp/wt/$W that BREAKS this property, while the code still compiles and the existing test suite ('make check' in /tmp/wt/$W, takes a few minutes; run it once at the end, in the background while you write the demo if you like) still passes. The change should look like a plausible bug a maintainer could introduce (an off-by-one, a dropped condition, a wrong flag, a reordered step, a missing error path, an optimisation that is wrong in a corner case), NOT sabotage that ordinary use would expose at once. It must need something specific to manifest: a particular interleaving, a crash or I/O fault at a particular point, a multi-step sequence of operations, an unusual input or configuration, or two cooperating sites that each look fine alone.

Deliver, in the directory /tmp/wt/$W/_seed/ :
 1. patch.diff  - output of 'git diff' of your source change only (run from /tmp/wt/$W; must apply with 'git apply' to a clean tree at the same commit; do not include _seed or build output).
 2. demo.sh     - a self-contained bash script taking ONE argument, the path of a built tree (it uses \$1/snapraid), that creates its own temporary directory with mktemp -d, sets up a small array (config file, data dirs, parity, content), drives the scenario, and exits 1 when the property is violated (prints what went wrong) and 0 when it holds. It must exit 1 with your change and 0 on the unchanged tree (you can check the unchanged behaviour by 'git stash'; rebuild with make; then 'git stash pop' and rebuild). It must clean up its temp dir. Useful snapraid test options exist: see 'snapraid --help' and cmdline/snapraid.c for the --test-* options (e.g. --test-kill-after-sync, --test-io-error..., --test-skip-self to speed up start).
 3. meta.json   - {"property": "$P", "summary": "<what was changed and why it breaks the property>", "needs": "<what specific circumstance is required for it to manifest>", "files": [...], "make_check": "passed|failed", "demo_on_patched": "...", "demo_on_base": "..."}

You have about 15 minutes of wall-clock; keep the change small (ideally < 15 lines) and finish with the three files in place. Leave the worktree with your change applied and built. In your final answer give a one-paragraph description of the change and the results of make check and of the demo on both trees.
EOP
echo /tmp/wt/prompt_$W.txt
