// run.hpp - a run is (family, seed) -> Config + explicit op list; the executor interprets ops,
// evaluates the always-on monitors after every command, and collects violations/probes.
#pragma once
#include "sandbox.hpp"
#include "oracles.hpp"

struct Violation {
	std::string prop;   // property id whose oracle failed ("H" = harness problem)
	std::string cls;    // violation class (stable across minimisation)
	std::string msg;
	int op_index = -1;
	Json focus;         // for macro ops: the specific enumerated case
};

struct RunPlan {
	std::string family;
	uint64_t seed = 0;
	Config cfg;
	std::vector<Json> ops;
	Json focus;          // when replaying: restrict macro ops to this case
	int focus_op = -1;
	Json to_json() const;
	static RunPlan from_json(const Json& j);
};

struct RunOutcome {
	std::vector<Violation> viol;
	std::map<std::string, uint64_t> probes;
	std::map<std::string, uint64_t> faults;
	uint64_t commands = 0;
	uint64_t cases = 0;            // enumerated cases inside macro ops (kill points, targets, ...)
	uint64_t nontrivial_cases = 0;
	int64_t sim_seconds = 0;
	uint64_t decisions = 0;
	std::set<uint64_t> interleavings;
	std::set<uint64_t> case_hashes; // distinct nontrivial cases
	bool nontrivial = false;
	uint64_t digest = 0;
	std::vector<uint64_t> cmd_digests;
	std::vector<std::string> cmd_lines;
	bool harness_error = false;
	std::string harness_msg;
	Json sample;
	bool has(const std::string& prop) const { for (auto& v : viol) if (v.prop == prop) return true; return false; }
};

struct Exec;
typedef std::function<void(Exec&, const Json& op, int idx)> OpHandler;

struct Exec {
	Sandbox sb;
	RunOutcome out;
	Rng aux;                      // schedule-independent auxiliary randomness derived from the seed
	const RunPlan* plan = nullptr;
	int cur_op = -1;
	// state shared by ops
	Snap synced;                  // data dirs at the last clean sync
	bool have_synced = false;
	Snap synced_all;              // whole sandbox at the last clean sync
	CmdResult last;
	CmdSpec last_spec;
	bool monitors = true;         // always-on monitors after each command
	bool check_parity_every_cmd = true;
	std::map<std::string, Json> vars;
	std::set<std::string> expected_unsynced; // files damaged by concurrent faults etc.

	Exec(const std::string& root, const RunPlan& p);
	~Exec();

	void violation(const std::string& prop, const std::string& cls, const std::string& msg, const Json& focus = Json());
	void probe(const std::string& name, uint64_t n = 1) { out.probes[name] += n; }
	void harness(const std::string& msg);
	bool focused() const { return plan && plan->focus_op == cur_op && plan->focus.type != Json::NUL; }
	const Json& focus() const { return plan->focus; }

	// file selection on a data disk: sorted live regular files (sandbox relative), excluding content copies
	std::vector<std::string> live_files(const std::string& top) const;
	std::string disk_top(int64_t d) const { return sb.cfg.disks[(size_t)(((d % (int64_t)sb.cfg.disks.size()) + (int64_t)sb.cfg.disks.size()) % (int64_t)sb.cfg.disks.size())].top; }
	std::string pick_file(int64_t d, int64_t f) const; // "" if the disk has no file

	// commands
	CmdResult cmd(const CmdSpec& spec, bool run_monitors = true);
	CmdResult simple(const std::string& name, std::vector<std::string> opts = {}, uint64_t sched = 0);
	void after_command(const CmdSpec& spec, const CmdResult& r);
	void check_parity_invariant(const std::string& when);
	void mark_synced();

	void run_all();
	void exec_op(const Json& op, int idx);
	static std::map<std::string, OpHandler>& handlers();
	static void register_op(const std::string& kind, OpHandler h);
	void finish();
};

std::string verif_dir(); // root of the verification tree (golden corpus, known findings)

// generation helpers -------------------------------------------------------
struct GenCtx {
	Rng rng;
	int tier; // 0 quick, 1 thorough
	GenCtx(uint64_t seed, int tier_) : rng(seed), tier(tier_) {}
};
Config gen_config(Rng& rng, int max_disks = 6, int max_np = 6, bool allow_split = true);
std::string gen_name(Rng& rng, bool odd_bytes);
uint64_t gen_size(Rng& rng, unsigned bs, unsigned max_blocks = 9);
Json op_create(Rng& rng, const Config& cfg, int disk = -1, bool odd_names = true);
Json op_cmd(const CmdSpec& s, const std::string& expect = "any");
CmdSpec gen_sched(Rng& rng, CmdSpec s); // randomise schedule policy/seed
std::vector<Json> gen_mutations(Rng& rng, const Config& cfg, int n, bool odd_names = true);
std::vector<Json> gen_idiom(Rng& rng, const Config& cfg, int tag);
std::vector<Json> gen_populate(Rng& rng, const Config& cfg, int per_disk_min, int per_disk_max, bool odd_names = true);

// families -----------------------------------------------------------------
struct Family {
	std::string name;
	std::string prop;          // property decided
	std::string level;         // evidence level
	std::function<RunPlan(uint64_t seed, int tier)> gen;
	int quick_runs;
	int thorough_runs;
	std::string rule;          // how cases are generated / what is nontrivial
	bool san = false;          // needs the sanitizer build
};
std::vector<Family>& families();
const Family* find_family(const std::string& name);
void register_family(const Family& f);

RunOutcome execute_plan(const RunPlan& p, const std::string& root);

// which families decide which property, and with how many runs per tier
struct CheckPart { std::string family; int quick; int thorough; };
struct CheckDef { std::string prop; std::string level; std::vector<CheckPart> parts; std::string rule; };
std::vector<CheckDef>& check_table();
