// Independent content file codec. See contentfile.hpp.
#include <cstdarg>
#include "model/contentfile.hpp"

static uint32_t crc_table[256];
static bool crc_ready = false;

static void crc_init()
{
	if (crc_ready) return;
	for (uint32_t i = 0; i < 256; ++i) {
		uint32_t c = i;
		for (int k = 0; k < 8; ++k)
			c = (c & 1) ? (c >> 1) ^ 0x82F63B78u : c >> 1; // Castagnoli, reflected
		crc_table[i] = c;
	}
	crc_ready = true;
}

uint32_t crc32c_ref(uint32_t crc, const void* data, size_t n)
{
	crc_init();
	const unsigned char* p = (const unsigned char*)data;
	while (n--)
		crc = crc_table[(crc ^ *p++) & 0xff] ^ (crc >> 8);
	return crc;
}

uint32_t crc32c_of(const void* data, size_t n)
{
	return crc32c_ref(0xffffffffu, data, n) ^ 0xffffffffu;
}

namespace {
struct Rd {
	const unsigned char* p;
	size_t n, i = 0;
	bool fail = false;
	int getc() { if (i >= n) { fail = true; return -1; } return p[i++]; }
	bool eof() const { return i >= n; }
	// little-endian base-128, the LAST byte has the high bit set
	uint64_t var(int maxbits)
	{
		uint64_t v = 0;
		int s = 0;
		for (;;) {
			int c = getc();
			if (c < 0) return 0;
			if (c & 0x80) { v |= (uint64_t)(c & 0x7f) << s; return v; }
			v |= (uint64_t)c << s;
			s += 7;
			if (s >= maxbits) { fail = true; return 0; }
		}
	}
	uint32_t v32() { return (uint32_t)var(32); }
	uint64_t v64() { return var(64); }
	Bytes raw(size_t k)
	{
		if (i + k > n) { fail = true; i = n; return Bytes(); }
		Bytes b((const char*)p + i, k);
		i += k;
		return b;
	}
	std::string str()
	{
		uint32_t len = v32();
		if (fail || len >= 4096) { fail = true; return ""; }
		return raw(len);
	}
};
}

std::string content_decode(const Bytes& data, Content& c)
{
	c = Content();
	Rd r{ (const unsigned char*)data.data(), data.size() };
	if (data.size() < 12) return "short header";
	Bytes h = r.raw(12);
	if (h == Bytes("SNAPCNT2\n\3\0\0", 12)) c.version = 2;
	else if (h == Bytes("SNAPCNT3\n\3\0\0", 12)) c.version = 3;
	else if (h == Bytes("SNAPCNT1\n\3\0\0", 12)) c.version = 1;
	else return "bad header";
	bool crc_seen = false;
	// position occupancy per map for overlap detection is left to the oracle
	while (!r.eof()) {
		int cmd = r.getc();
		c.record_order.push_back((char)cmd);
		switch (cmd) {
		case 'z': c.block_size = r.v32(); if (c.block_size == 0) return "zero block size"; break;
		case 'x': c.blockmax = r.v32(); break;
		case 'y': c.hash_size = r.v32(); if (c.hash_size < 2 || c.hash_size > 16) return "bad hash size"; break;
		case 'c': c.hash_kind = (char)r.getc(); c.hash_seed = r.raw(16); if (!strchr("ukm", c.hash_kind)) return "bad hash kind"; break;
		case 'C': c.prev_hash_kind = (char)r.getc(); c.prev_hash_seed = r.raw(16); if (!strchr("ukm", c.prev_hash_kind)) return "bad prev hash kind"; break;
		case 'M': case 'm': {
			CMap m;
			m.name = r.str();
			m.position = r.v32();
			if (cmd == 'M') { m.total_blocks = r.v32(); m.free_blocks = r.v32(); } else { m.total_blocks = m.free_blocks = 0; }
			m.uuid = r.str();
			c.maps.push_back(m);
			break;
		}
		case 'P': {
			CParity p;
			p.v3 = false;
			p.level = r.v32();
			p.total_blocks = r.v32();
			p.free_blocks = r.v32();
			CSplit s;
			s.uuid = r.str();
			s.size = 0;
			p.splits.push_back(s);
			if (p.level >= 6) return "bad parity level";
			c.parities.push_back(p);
			break;
		}
		case 'Q': {
			CParity p;
			p.v3 = true;
			p.level = r.v32();
			p.total_blocks = r.v32();
			p.free_blocks = r.v32();
			uint32_t n = r.v32();
			if (r.fail || n > 64) return "bad split count";
			for (uint32_t k = 0; k < n; ++k) {
				CSplit s;
				s.path = r.str();
				s.uuid = r.str();
				s.size = r.v64();
				p.splits.push_back(s);
			}
			if (p.level >= 6) return "bad parity level";
			c.parities.push_back(p);
			break;
		}
		case 'f': {
			CFile f;
			f.map_idx = r.v32();
			if (r.fail || f.map_idx >= c.maps.size()) return "file mapping out of range";
			f.size = r.v64();
			if (c.block_size == 0) return "file before block size";
			f.mtime_sec = (int64_t)r.v64();
			uint32_t ns = r.v32();
			f.mtime_nsec = ns == 0 ? -1 : (int32_t)(ns - 1);
			f.inode = r.v64();
			f.sub = r.str();
			if (r.fail) return "truncated file record";
			if (f.sub.empty()) return "null file name";
			uint64_t nb = (f.size + c.block_size - 1) / c.block_size;
			if (f.size / c.block_size > c.blockmax) return "file too big";
			uint64_t idx = 0;
			while (idx < nb) {
				int sc = r.getc();
				uint32_t pos = r.v32();
				uint32_t cnt = r.v32();
				if (r.fail) return "truncated block run";
				if (idx + cnt > nb) return "block run out of file";
				if ((uint64_t)pos + cnt > c.blockmax) return "block run out of parity";
				int st;
				if (sc == 'b') st = BS_BLK; else if (sc == 'g' || sc == 'n') st = BS_CHG; else if (sc == 'p') st = BS_REP; else return "bad block type";
				if (cnt == 0) return "empty block run";
				for (uint32_t k = 0; k < cnt; ++k) {
					CBlock b;
					b.state = st;
					b.pos = pos + k;
					if (sc != 'n') b.hash = r.raw(c.hash_size); else b.hash = Bytes(c.hash_size, '\xff');
					f.blocks.push_back(b);
				}
				if (r.fail) return "truncated hashes";
				idx += cnt;
			}
			c.files.push_back(f);
			break;
		}
		case 's': case 'a': {
			CLink l;
			l.hard = cmd == 'a';
			l.map_idx = r.v32();
			if (r.fail || l.map_idx >= c.maps.size()) return "link mapping out of range";
			l.sub = r.str();
			l.to = r.str();
			if (l.sub.empty()) return "null link";
			c.links.push_back(l);
			break;
		}
		case 'r': {
			CDir d;
			d.map_idx = r.v32();
			if (r.fail || d.map_idx >= c.maps.size()) return "dir mapping out of range";
			d.sub = r.str();
			if (d.sub.empty()) return "null dir";
			c.dirs.push_back(d);
			break;
		}
		case 'h': {
			uint32_t mi = r.v32();
			if (r.fail || mi >= c.maps.size()) return "hole mapping out of range";
			CMap& m = c.maps[mi];
			m.has_holes_record = true;
			uint32_t pos = 0;
			while (pos < c.blockmax) {
				uint32_t cnt = r.v32();
				if (r.fail) return "truncated hole run";
				if ((uint64_t)pos + cnt > c.blockmax) return "hole run out of range";
				if (cnt == 0) return "empty hole run";
				int sc = r.getc();
				if (sc == 'o') {
					for (uint32_t k = 0; k < cnt; ++k) {
						m.deleted[pos + k] = r.raw(c.hash_size);
					}
					if (r.fail) return "truncated deleted hashes";
				} else if (sc != 'O')
					return "bad hole type";
				pos += cnt;
			}
			break;
		}
		case 'i': {
			c.has_info = true;
			c.info_oldest = r.v32();
			c.info.assign(c.blockmax, CInfo());
			uint32_t pos = 0;
			while (pos < c.blockmax) {
				uint32_t cnt = r.v32();
				if (r.fail) return "truncated info run";
				if ((uint64_t)pos + cnt > c.blockmax) return "info run out of range";
				if (cnt == 0) return "empty info run";
				uint32_t flag = r.v32();
				CInfo in;
				if (flag & 1) {
					uint32_t t = r.v32();
					in.present = true;
					in.time = t + c.info_oldest;
					in.bad = flag & 2;
					in.rehash = flag & 4;
					in.justsynced = flag & 8;
				}
				for (uint32_t k = 0; k < cnt; ++k) c.info[pos + k] = in;
				pos += cnt;
			}
			break;
		}
		case 'N': {
			c.crc_computed = crc32c_of(data.data(), r.i);
			Bytes b = r.raw(4);
			if (r.fail) return "truncated crc";
			c.crc_stored = (uint8_t)b[0] | (uint32_t)(uint8_t)b[1] << 8 | (uint32_t)(uint8_t)b[2] << 16 | (uint32_t)(uint8_t)b[3] << 24;
			if (c.crc_stored != c.crc_computed) return "crc mismatch";
			crc_seen = true;
			break;
		}
		default:
			return strf("bad command 0x%02x at %zu", cmd, r.i - 1);
		}
		if (r.fail) return "truncated record";
	}
	if (!crc_seen) return "missing crc";
	if (c.has_info && c.info.size() != c.blockmax) c.info.resize(c.blockmax);
	if (!c.has_info) c.info.assign(c.blockmax, CInfo());
	return "";
}

namespace {
struct Wr {
	Bytes o;
	void c(char ch) { o += ch; }
	void var(uint64_t v)
	{
		for (;;) {
			unsigned char b = v & 0x7f;
			v >>= 7;
			if (v) o += (char)b; else { o += (char)(b | 0x80); break; }
		}
	}
	void str(const std::string& s) { var(s.size()); o += s; }
};
}

Bytes content_encode(const Content& c, const std::vector<uint32_t>* disk_order)
{
	std::vector<uint32_t> order;
	if (disk_order) order = *disk_order;
	else for (uint32_t k = 0; k < c.maps.size(); ++k) order.push_back(k);
	Wr w;
	w.o = c.version == 3 ? Bytes("SNAPCNT3\n\3\0\0", 12) : Bytes("SNAPCNT2\n\3\0\0", 12);
	w.c('z'); w.var(c.block_size);
	w.c('x'); w.var(c.blockmax);
	if (c.version == 3) { w.c('y'); w.var(c.hash_size); }
	w.c('c'); w.c(c.hash_kind); w.o += c.hash_seed;
	if (c.prev_hash_kind) { w.c('C'); w.c(c.prev_hash_kind); w.o += c.prev_hash_seed; }
	for (auto& m : c.maps) {
		w.c('M'); w.str(m.name); w.var(m.position); w.var(m.total_blocks); w.var(m.free_blocks); w.str(m.uuid);
	}
	for (auto& p : c.parities) {
		if (c.version == 3) {
			w.c('Q'); w.var(p.level); w.var(p.total_blocks); w.var(p.free_blocks); w.var(p.splits.size());
			for (auto& s : p.splits) { w.str(s.path); w.str(s.uuid); w.var(s.size); }
		} else {
			w.c('P'); w.var(p.level); w.var(p.total_blocks); w.var(p.free_blocks); w.str(p.splits.empty() ? "" : p.splits[0].uuid);
		}
	}
	for (uint32_t mi : order) {
		if (mi >= c.maps.size()) continue;
		for (auto& f : c.files) {
			if (f.map_idx != mi) continue;
			w.c('f'); w.var(mi); w.var(f.size); w.var((uint64_t)f.mtime_sec);
			w.var(f.mtime_nsec < 0 ? 0 : (uint32_t)f.mtime_nsec + 1);
			w.var(f.inode); w.str(f.sub);
			size_t b = 0;
			while (b < f.blocks.size()) {
				size_t e = b + 1;
				while (e < f.blocks.size() && f.blocks[e].state == f.blocks[b].state && f.blocks[e].pos == f.blocks[b].pos + (e - b)) ++e;
				w.c(f.blocks[b].state == BS_BLK ? 'b' : f.blocks[b].state == BS_CHG ? 'g' : 'p');
				w.var(f.blocks[b].pos); w.var(e - b);
				for (size_t k = b; k < e; ++k) w.o += f.blocks[k].hash;
				b = e;
			}
		}
		for (auto& l : c.links) {
			if (l.map_idx != mi) continue;
			w.c(l.hard ? 'a' : 's'); w.var(mi); w.str(l.sub); w.str(l.to);
		}
		for (auto& d : c.dirs) {
			if (d.map_idx != mi) continue;
			w.c('r'); w.var(mi); w.str(d.sub);
		}
		const CMap& m = c.maps[mi];
		w.c('h'); w.var(mi);
		uint32_t b = 0;
		while (b < c.blockmax) {
			bool del = m.deleted.count(b) != 0;
			uint32_t e = b + 1;
			while (e < c.blockmax && (m.deleted.count(e) != 0) == del) ++e;
			w.var(e - b);
			if (del) {
				w.c('o');
				for (uint32_t k = b; k < e; ++k) w.o += m.deleted.at(k);
			} else
				w.c('O');
			b = e;
		}
	}
	w.c('i'); w.var(c.info_oldest);
	{
		uint32_t b = 0;
		auto same = [&](const CInfo& x, const CInfo& y) {
			return x.present == y.present && (!x.present || (x.time == y.time && x.bad == y.bad && x.rehash == y.rehash && x.justsynced == y.justsynced));
		};
		while (b < c.blockmax) {
			uint32_t e = b + 1;
			while (e < c.blockmax && same(c.info[b], c.info[e])) ++e;
			w.var(e - b);
			const CInfo& in = c.info[b];
			if (in.present) {
				w.var(1 | (in.bad ? 2 : 0) | (in.rehash ? 4 : 0) | (in.justsynced ? 8 : 0));
				w.var(in.time >= c.info_oldest ? in.time - c.info_oldest : 0);
			} else
				w.var(0);
			b = e;
		}
	}
	w.c('N');
	uint32_t crc = crc32c_of(w.o.data(), w.o.size());
	for (int k = 0; k < 4; ++k) w.o += (char)(crc >> (8 * k));
	return w.o;
}
