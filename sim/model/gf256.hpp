// Independent GF(2^8) arithmetic and SnapRAID generator matrices, from the documented definition.
#pragma once
#include <cstdint>
#include <cstddef>

uint8_t gf_mul(uint8_t a, uint8_t b);      // polynomial 0x11d, shift-and-add
uint8_t gf_inv(uint8_t a);                 // a != 0
uint8_t gf_pow2(int e);                    // 2^e, e may be negative
// coefficient of parity row j (0..5) for the data disk at column i (0..250); zmode: rows 0..2 only
uint8_t gen_coef(bool zmode, int j, int i);
// out[k] ^= coef * in[k]
void gf_mul_add(uint8_t* out, const uint8_t* in, size_t n, uint8_t coef);
