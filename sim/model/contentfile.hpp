// Independent decoder/encoder of the SnapRAID content file format (SNAPCNT2/3).
// Written from the format description, shares no code with /repo.
#pragma once
#include "util.hpp"

enum BlockState { BS_BLK = 1, BS_CHG = 2, BS_REP = 3 };

struct CBlock {
	int state;          // BS_*
	uint32_t pos;       // parity position
	Bytes hash;         // hash_size bytes
};

struct CFile {
	uint32_t map_idx;   // index into maps (order of 'M' records)
	uint64_t size;
	int64_t mtime_sec;
	int32_t mtime_nsec; // -1 = invalid (encoded as 0)
	uint64_t inode;
	std::string sub;
	std::vector<CBlock> blocks;
};

struct CLink { uint32_t map_idx; bool hard; std::string sub, to; };
struct CDir { uint32_t map_idx; std::string sub; };

struct CMap {
	std::string name;
	uint32_t position;
	uint32_t total_blocks, free_blocks;
	std::string uuid;
	// per position: hash of a deleted block ("" = not deleted)
	std::map<uint32_t, Bytes> deleted;
	bool has_holes_record = false;
};

struct CSplit { std::string path, uuid; uint64_t size; };
struct CParity {
	uint32_t level;
	uint32_t total_blocks, free_blocks;
	bool v3;                  // 'Q' record
	std::vector<CSplit> splits; // v2: one entry with only uuid
};

struct CInfo {
	bool present = false;
	uint32_t time = 0;   // absolute seconds (multiple of 8)
	bool bad = false, rehash = false, justsynced = false;
};

struct Content {
	int version = 0;
	uint32_t block_size = 0;
	uint32_t blockmax = 0;
	uint32_t hash_size = 16;
	char hash_kind = 0;      // 'u' murmur3, 'k' spooky2, 'm' metro
	Bytes hash_seed;         // 16 bytes
	char prev_hash_kind = 0;
	Bytes prev_hash_seed;
	std::vector<CMap> maps;
	std::vector<CParity> parities;
	std::vector<CFile> files;
	std::vector<CLink> links;
	std::vector<CDir> dirs;
	bool has_info = false;
	uint32_t info_oldest = 0;
	std::vector<CInfo> info;  // blockmax entries
	uint32_t crc_stored = 0;
	uint32_t crc_computed = 0;
	std::vector<char> record_order; // command letters in file order (for the encoder)

	const CMap* map_by_name(const std::string& n) const
	{
		for (auto& m : maps) if (m.name == n) return &m;
		return nullptr;
	}
};

// returns "" on success, else the reason the file is not a well formed content file
std::string content_decode(const Bytes& data, Content& out);

// re-encode in the canonical order used by the tool (header z x [y] c [C] M* P|Q* (f* s|a* r* h)* i N)
// disk_order: map indexes in the order of the data disks in the configuration file (the tool writes the per-disk
// sections in that order); default = order of the 'M' records
Bytes content_encode(const Content& c, const std::vector<uint32_t>* disk_order = nullptr);

uint32_t crc32c_ref(uint32_t crc, const void* data, size_t n); // raw update (no pre/post inversion)
uint32_t crc32c_of(const void* data, size_t n);                 // standard CRC-32C
