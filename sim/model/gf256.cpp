#include "model/gf256.hpp"

uint8_t gf_mul(uint8_t a, uint8_t b)
{
	unsigned r = 0, x = a;
	for (int k = 0; k < 8; ++k) {
		if (b & (1u << k)) r ^= x;
		x <<= 1;
		if (x & 0x100) x ^= 0x11d;
	}
	return (uint8_t)r;
}

uint8_t gf_inv(uint8_t a)
{
	// a^254
	uint8_t r = 1;
	for (int k = 0; k < 254; ++k) r = gf_mul(r, a);
	return r;
}

uint8_t gf_pow2(int e)
{
	e %= 255;
	if (e < 0) e += 255;
	uint8_t r = 1;
	for (int k = 0; k < e; ++k) r = gf_mul(r, 2);
	return r;
}

static uint8_t cauchy_raw(int j, int i)
{
	// row j >= 2: 1 / (2^-i + 2^(j-1))
	return gf_inv((uint8_t)(gf_pow2(-i) ^ gf_pow2(j - 1)));
}

uint8_t gen_coef(bool zmode, int j, int i)
{
	if (j == 0) return 1;
	if (j == 1) return gf_pow2(i);
	if (zmode) {
		// third row: (2^-1)^i
		return gf_pow2(-i);
	}
	// normalise the row by its first column
	return gf_mul(cauchy_raw(j, i), gf_inv(cauchy_raw(j, 0)));
}

void gf_mul_add(uint8_t* out, const uint8_t* in, size_t n, uint8_t coef)
{
	if (coef == 0) return;
	uint8_t tab[256];
	for (int v = 0; v < 256; ++v) tab[v] = gf_mul((uint8_t)v, coef);
	for (size_t k = 0; k < n; ++k) out[k] ^= tab[in[k]];
}
