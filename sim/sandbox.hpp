// sandbox.hpp - one simulated array on tmpfs: configuration, file-system operations,
// snapshots, version store and the command runner (fork + simrt).
#pragma once
#include "util.hpp"
extern "C" {
#include "simrt.h"
}

struct DiskCfg {
	std::string name;     // "d1"
	std::string top;      // top-level directory of the sandbox
	std::string uuid;     // "" = no uuid support
	bool in_config = true;
};

struct Config {
	int block_kib = 1;
	int hash_size = 16;
	char hash = 'k';              // 'k' spooky2, 'u' murmur3 (forced on every command)
	bool zmode = false;
	int np = 1;
	std::vector<int> splits;      // per level
	std::vector<DiskCfg> disks;
	std::vector<std::string> content; // sandbox relative
	bool pool = false;
	std::string share;
	std::vector<std::string> filters; // "exclude /a/", "include *.x"
	bool nohidden = false;
	int64_t parity_limit = 0;     // --test-parity-limit
	int autosave_at = 0;          // --test-force-autosave-at (0 none)
	int fiemap_mode = 1;
	int scan_order = 0;           // 0 default(physical) 1 inode 2 alpha 3 dir
	bool skip_fallocate = false;
	char parity_prefix = 'p';     // top-level directories of the parity files: <prefix><level>s<split>
	std::vector<std::string> extra_tops; // further top-level directories to create and register as devices (twin configurations)
	std::map<std::string, int64_t> budgets; // full-disk fault: byte budget per top-level directory

	unsigned block_size() const { return (unsigned)block_kib * 1024; }
	std::string parity_top(int level, int split) const { return strf("%c%ds%d", parity_prefix, level, split); }
	std::string parity_rel(int level, int split) const { return parity_top(level, split) + "/parity"; }
	static const char* level_name(int l, bool z)
	{
		static const char* n[] = { "parity", "2-parity", "3-parity", "4-parity", "5-parity", "6-parity" };
		if (z && l == 2) return "z-parity";
		return n[l];
	}
	Json to_json() const;
	static Config from_json(const Json& j);
};

// ---- snapshot of a directory tree
struct SnapNode {
	char type;            // 'f' file, 'l' symlink, 'd' dir
	Bytes data;           // file bytes or link target
	int64_t mtime_s = 0;
	int64_t mtime_ns = 0;
	uint64_t vino = 0;    // files: virtual inode (hard links share it)
	unsigned mode = 0;
};
typedef std::map<std::string, SnapNode> Snap; // sandbox-relative path -> node

struct Fault {
	sim_fault f;
	Fault() { memset(&f, 0, sizeof(f)); }
	Json to_json() const;
	static Fault from_json(const Json& j);
};

struct CmdSpec {
	std::string cmd;
	std::vector<std::string> opts;
	// scheduling
	uint64_t sched_seed = 1;
	int policy = SP_RANDOM;
	int policy_param = 0;
	int spurious = 0;
	int lock_yield = 8;
	// faults
	unsigned kill_at = 0;
	int kill_mode = 0;
	unsigned park_at = 0;
	unsigned sig_at_io = 0;
	int sig_no = 2;
	unsigned malloc_fail_at = 0;
	int short_read = 0;
	int64_t clock_jump_ns = 0;
	unsigned clock_jump_at = 0;
	bool trace_stat = false;
	std::vector<Fault> faults;
	bool no_hash_opt = false; // do not force the hash kind
	unsigned stream_size = 0; // knob: size of the stream buffers of stream.c (0 = default 64 KiB)
	Json to_json() const;
	static CmdSpec from_json(const Json& j);
};

struct CmdResult {
	int exit_code = -1;     // -1 if terminated by a signal
	int term_sig = 0;
	bool sim_killed = false;
	bool harness_error = false; // deadlock/steps/internal are NOT harness errors; timeouts are
	std::string out, err, log;
	sim_cmd info;            // copy of the shared record (plan + results)
	std::vector<sim_ev> trace;
	std::vector<std::string> paths; // interned paths at the end of the command (index = id)
	bool trace_overflow = false;
	std::string argv_line;

	bool ok() const { return exit_code == 0; }
	bool sanitizer() const { return exit_code == SIM_EXIT_SANITIZER; }
	const std::string& path(uint32_t id) const { static std::string e; return id < paths.size() ? paths[id] : e; }
};

struct VersionStore {
	// (disk, path, size, mtime) -> every distinct content seen under that key. Normally one; silent damage with the
	// stamp restored, or a fix that writes wrong bytes under the recorded stamp, add more. Oracles pick the version of a
	// block by the recorded hash.
	std::map<std::string, std::vector<std::shared_ptr<Bytes>>> m;
	static std::string key(const std::string& disk, const std::string& sub, uint64_t size, int64_t s, int64_t ns)
	{
		return disk + '\0' + sub + '\0' + strf("%llu:%lld:%lld", (unsigned long long)size, (long long)s, (long long)ns);
	}
	void put(const std::string& disk, const std::string& sub, const Bytes& b, int64_t s, int64_t ns)
	{
		auto& v = m[key(disk, sub, b.size(), s, ns)];
		for (auto& e : v) if (*e == b) return;
		v.push_back(std::make_shared<Bytes>(b));
	}
	std::shared_ptr<Bytes> get(const std::string& disk, const std::string& sub, uint64_t size, int64_t s, int64_t ns) const
	{
		auto it = m.find(key(disk, sub, size, s, ns));
		return it == m.end() || it->second.empty() ? nullptr : it->second[0];
	}
	const std::vector<std::shared_ptr<Bytes>>* all(const std::string& disk, const std::string& sub, uint64_t size, int64_t s, int64_t ns) const
	{
		auto it = m.find(key(disk, sub, size, s, ns));
		return it == m.end() ? nullptr : &it->second;
	}
};

struct Sandbox {
	std::string root;
	Config cfg;
	uint64_t run_seed = 0;
	int64_t now_s = 1700000000;   // simulated wall clock (seconds)
	uint64_t wcount = 0;          // unique nsec generator
	unsigned cmd_index = 0;
	VersionStore versions;
	int64_t sim_seconds = 0;      // simulated time covered
	// stats
	std::map<std::string, uint64_t> fault_fired; // by kind name
	uint64_t commands_run = 0;

	Sandbox(const std::string& root_, const Config& c, uint64_t seed);
	~Sandbox();
	void setup();                 // create dirs, devices, conf
	void write_conf();
	void register_devices();
	void register_devices_keep_vinos(); // re-read budgets / uuids of the device table without forgetting inodes and paths
	std::string abs(const std::string& rel) const { return root + "/" + rel; }
	const DiskCfg* disk(const std::string& name) const;

	// --- file-system operations on data disks (rel = "<top>/<sub>")
	void next_stamp(int64_t& s, int64_t& ns, bool zero_nsec = false);
	bool put_file(const std::string& rel, const Bytes& data, int64_t s, int64_t ns, bool new_inode = true, uint64_t force_vino = 0);
	bool set_mtime(const std::string& rel, int64_t s, int64_t ns);
	bool remove_path(const std::string& rel); // file, link or (recursively) directory
	bool rename_path(const std::string& from, const std::string& to);
	bool make_dir(const std::string& rel);
	bool make_symlink(const std::string& rel, const std::string& target);
	bool make_hardlink(const std::string& rel, const std::string& target_rel);
	bool corrupt_bytes(const std::string& rel, uint64_t off, const Bytes& newbytes); // keeps mtime and inode
	bool exists(const std::string& rel) const;
	bool get_file(const std::string& rel, Bytes& out) const;
	bool stat_file(const std::string& rel, uint64_t& size, int64_t& s, int64_t& ns) const;
	void observe_versions();      // register every file currently on the data disks
	void mkdirs_for(const std::string& rel);

	// --- snapshots
	Snap snapshot(const std::vector<std::string>& tops) const;
	Snap snapshot_all() const;    // everything but "out"
	void restore(const Snap& s, const std::vector<std::string>& tops); // replaces the named tops
	void restore_all(const Snap& s);
	std::vector<std::string> data_tops() const;
	std::vector<std::string> parity_tops() const;
	std::vector<std::string> all_tops() const;

	// --- commands
	std::vector<std::string> base_args(const CmdSpec& spec, const std::string& tag) const;
	CmdResult run(const CmdSpec& spec, int slot = 0);
	// two-process interleaving (C14): A parks at mutation index spec_a.park_at, B runs, A resumes
	void run_pair(const CmdSpec& a, const CmdSpec& b, CmdResult& ra, CmdResult& rb, bool& b_ran_while_parked);
	void advance_clock(int64_t seconds) { now_s += seconds; if (seconds > 0) sim_seconds += seconds; }
};

std::string snap_diff(const Snap& a, const Snap& b, bool compare_mtime, size_t max_items = 6); // "" if equal
Bytes gen_bytes(uint64_t seed, size_t n);
const char* ev_name(int kind);
std::string trace_digest_text(const CmdResult& r, size_t max_events);
uint64_t trace_hash(const CmdResult& r);
void rm_rf(const std::string& path);
