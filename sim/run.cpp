// run.cpp - executor, generic ops, generation helpers
#include <unistd.h>
#include <sys/stat.h>
#include "run.hpp"

// ------------------------------------------------------------------ plan json

Json RunPlan::to_json() const
{
	Json j = Json::obj();
	j.set("family", family).set("seed", seed).set("config", cfg.to_json());
	Json o = Json::arr();
	for (auto& x : ops) o.push(x);
	j.set("ops", o);
	if (focus_op >= 0) j.set("focus_op", focus_op).set("focus", focus);
	return j;
}

RunPlan RunPlan::from_json(const Json& j)
{
	RunPlan p;
	p.family = j.str("family");
	p.seed = (uint64_t)j.num("seed");
	p.cfg = Config::from_json(j.at("config"));
	p.ops = j.at("ops").a;
	p.focus_op = (int)j.num("focus_op", -1);
	p.focus = j.at("focus");
	return p;
}

// ------------------------------------------------------------------ registry

std::vector<Family>& families()
{
	static std::vector<Family> f;
	return f;
}

const Family* find_family(const std::string& name)
{
	for (auto& f : families()) if (f.name == name) return &f;
	return nullptr;
}

void register_family(const Family& f) { families().push_back(f); }

std::map<std::string, OpHandler>& Exec::handlers()
{
	static std::map<std::string, OpHandler> h;
	return h;
}

void Exec::register_op(const std::string& kind, OpHandler h) { handlers()[kind] = h; }

// ------------------------------------------------------------------ Exec

Exec::Exec(const std::string& root, const RunPlan& p) : sb(root, p.cfg, p.seed), aux(mix64(p.seed, 0xa0a0)), plan(&p)
{
	rm_rf(root);
	sb.setup();
}

Exec::~Exec()
{
	rm_rf(sb.root);
}

std::string verif_dir()
{
	const char* e = getenv("SNAPSIM_VERIF");
	return e ? e : "/verif";
}

void Exec::violation(const std::string& prop, const std::string& cls, const std::string& msg, const Json& focus)
{
	Violation v;
	v.prop = prop;
	v.cls = cls;
	// a family may claim the findings of the oracles of another property as its own (golden: C01 oracles on reference arrays)
	auto rm = vars.find("remap_" + prop);
	if (rm != vars.end() && rm->second.type == Json::STR) { v.prop = rm->second.s; v.cls = prop + "-" + cls; }
	v.msg = msg;
	v.op_index = cur_op;
	v.focus = focus;
	out.viol.push_back(v);
}

void Exec::harness(const std::string& msg)
{
	out.harness_error = true;
	if (out.harness_msg.empty()) out.harness_msg = msg;
}

std::vector<std::string> Exec::live_files(const std::string& top) const
{
	Snap s = sb.snapshot({ top });
	std::vector<std::string> v;
	for (auto& kv : s) {
		if (kv.second.type != 'f') continue;
		bool is_content = false;
		for (auto& c : sb.cfg.content)
			if (kv.first == c || starts_with(kv.first, c + ".")) is_content = true;
		if (!is_content) v.push_back(kv.first);
	}
	return v;
}

std::string Exec::pick_file(int64_t d, int64_t f) const
{
	std::vector<std::string> v = live_files(disk_top(d));
	if (v.empty()) return "";
	return v[(size_t)(((f % (int64_t)v.size()) + (int64_t)v.size()) % (int64_t)v.size())];
}

CmdResult Exec::simple(const std::string& name, std::vector<std::string> opts, uint64_t sched)
{
	CmdSpec s;
	s.cmd = name;
	s.opts = opts;
	s.sched_seed = sched ? sched : aux.next();
	return cmd(s);
}

CmdResult Exec::cmd(const CmdSpec& spec, bool run_monitors)
{
	CmdResult r = sb.run(spec);
	last = r;
	last_spec = spec;
	if (getenv("SNAPSIM_DEBUG")) {
		fprintf(stderr, "=== [%u] %s\n    exit=%d sig=%d killed=%d mut=%u io=%u threads=%u\n", sb.cmd_index - 1, r.argv_line.c_str(), r.exit_code, r.term_sig, (int)r.sim_killed, r.info.mut_count, r.info.io_count, r.info.threads_created);
		if (!r.err.empty()) fprintf(stderr, "--- stderr\n%s", r.err.c_str());
		if (atoi(getenv("SNAPSIM_DEBUG")) >= 2) fprintf(stderr, "--- stdout\n%s", r.out.c_str());
		if (atoi(getenv("SNAPSIM_DEBUG")) >= 3) {
			for (auto& line : split(r.log, '\n'))
				if (!starts_with(line, "msg:") && !starts_with(line, "memory:") && !starts_with(line, "uuid:") && !starts_with(line, "statfs:") && !line.empty()) fprintf(stderr, "  log| %s\n", line.c_str());
		}
		if (atoi(getenv("SNAPSIM_DEBUG")) >= 4) fprintf(stderr, "%s", trace_digest_text(r, 100000).c_str());
	}
	++out.commands;
	out.decisions += r.info.decisions;
	if (r.info.decisions) out.interleavings.insert(r.info.decision_hash);
	out.digest = mix64(out.digest, trace_hash(r));
	if (getenv("SNAPSIM_CMDDIGEST")) {
		out.cmd_digests.push_back(trace_hash(r));
		out.cmd_lines.push_back(r.argv_line + strf(" => exit %d sig %d | ", r.exit_code, r.term_sig) + r.err + " |OUT| " + r.out + " |LOG| " + r.log + " |TRACE| " + trace_digest_text(r, 4000));
	}
	// touch re-stamps files, fix re-creates them, concurrent-change faults rewrite them: register what is on the
	// disks now under its (path, size, stamp) key before the oracles look at the content file
	if (spec.cmd == "touch" || spec.cmd == "fix") sb.observe_versions();
	for (int i = 0; i < r.info.nfaults; ++i)
		if (r.info.faults[i].kind == FK_CONCURRENT && r.info.faults[i].fired) { sb.observe_versions(); break; }
	if (run_monitors && monitors) after_command(spec, r);
	return r;
}

void Exec::check_parity_invariant(const std::string& when)
{
	std::vector<LoadedContent> cs = load_contents(sb);
	std::set<uint64_t> seen;
	for (auto& l : cs) {
		if (!l.present || !l.err.empty()) continue;
		uint64_t h = hash_str(l.raw);
		if (!seen.insert(h).second) continue;
		ParityReport pr = parity_ok(sb, l.c);
		probe("parity_ok.stripes_checked", pr.stripes_synced);
		for (auto& p : pr.problems) violation("C06", starts_with(p, "map:") ? "map-invariant" : "parity-mismatch", when + ": " + l.rel + ": " + p);
		for (auto& p : pr.hash_problems) violation("C19", "recorded-hash-mismatch", when + ": " + l.rel + ": " + p);
		for (auto& p : pr.unknown) violation("C06", "unknown-version", when + ": " + l.rel + ": content records a file version that never existed: " + p);
	}
}

void Exec::after_command(const CmdSpec& spec, const CmdResult& r)
{
	std::string what = spec.cmd;
	if (r.harness_error) { harness("command timed out: " + r.argv_line); return; }
	if (r.exit_code == SIM_EXIT_INTERNAL) { harness(std::string("simrt: ") + r.info.note); return; }
	if (r.trace_overflow) probe("trace_overflow");
	if (r.exit_code == SIM_EXIT_DEADLOCK) violation("C13", "deadlock", what + ": " + r.info.note);
	if (r.exit_code == SIM_EXIT_STEPS) violation("C13", "livelock", what + ": " + r.info.note);
	if (r.sanitizer()) violation("SAN", "sanitizer", what + ": " + r.err.substr(0, 600));
	if (r.term_sig && r.term_sig != 6 /* abort is a legal way to stop with an error */ && !(r.term_sig == 2 || r.term_sig == 15))
		violation("SAN", "crash", what + strf(": terminated by signal %d", r.term_sig));
	for (auto& b : write_policy_breaches(sb, spec, r)) violation("C12", "write-policy", b);
	for (auto& b : fsync_order_breaches(sb, r)) violation("C06", "fsync-order", what + ": " + b);
	if (check_parity_every_cmd) check_parity_invariant("after " + what);
}

void Exec::mark_synced()
{
	synced = sb.snapshot(sb.data_tops());
	synced_all = sb.snapshot_all();
	have_synced = true;
}

void Exec::exec_op(const Json& op, int idx)
{
	cur_op = idx;
	std::string k = op.str("k");
	auto it = handlers().find(k);
	if (it == handlers().end()) { harness("unknown op " + k); return; }
	it->second(*this, op, idx);
}

void Exec::run_all()
{
	for (size_t i = 0; i < plan->ops.size(); ++i) {
		exec_op(plan->ops[i], (int)i);
		if (out.harness_error) break;
	}
	finish();
}

void Exec::finish()
{
	out.sim_seconds = sb.sim_seconds;
	for (auto& kv : sb.fault_fired) out.faults[kv.first] += kv.second;
}

RunOutcome execute_plan(const RunPlan& p, const std::string& root)
{
	Exec x(root, p);
	x.run_all();
	return x.out;
}

// ------------------------------------------------------------------ generic ops

static std::string content_guard(const Exec& x, const std::string& rel)
{
	// never let the workload touch a content copy living inside a data disk
	for (auto& c : x.sb.cfg.content)
		if (rel == c || starts_with(rel, c + ".")) return "";
	return rel;
}

// file selector of an op: an explicit sub path ("sub") on disk d if it exists, else the f-th live file of disk d
static std::string sel(Exec& x, const Json& op)
{
	if (op.has("sub")) {
		std::string rel = x.disk_top(op.num("d")) + "/" + op.str("sub");
		struct stat st;
		if (lstat(x.sb.abs(rel).c_str(), &st) == 0 && S_ISREG(st.st_mode)) return rel;
		return "";
	}
	return x.pick_file(op.num("d"), op.num("f"));
}

static void op_create_h(Exec& x, const Json& op, int)
{
	std::string top = x.disk_top(op.num("d"));
	std::string rel = content_guard(x, top + "/" + op.str("name"));
	if (rel.empty()) return;
	// refuse to create a file below an existing file or over a directory
	struct stat st;
	if (lstat(x.sb.abs(rel).c_str(), &st) == 0 && S_ISDIR(st.st_mode)) return;
	{
		size_t p = top.size();
		while ((p = rel.find('/', p + 1)) != std::string::npos)
			if (lstat(x.sb.abs(rel.substr(0, p)).c_str(), &st) == 0 && !S_ISDIR(st.st_mode)) return;
	}
	int64_t s, ns;
	x.sb.next_stamp(s, ns, op.num("zns") != 0);
	uint64_t vino = 0;
	if (op.has("reuse_vino")) { vino = (uint64_t)x.vars["last_deleted_vino"].i; x.vars["last_deleted_vino"] = Json((uint64_t)0); if (vino) x.probe("inode_reused"); }
	x.sb.put_file(rel, gen_bytes((uint64_t)op.num("seed"), (size_t)op.num("size")), s, ns, true, vino);
}

static void op_overwrite_h(Exec& x, const Json& op, int)
{
	std::string rel = sel(x, op);
	if (rel.empty()) return;
	int64_t s, ns;
	x.sb.next_stamp(s, ns, op.num("zns") != 0);
	x.sb.put_file(rel, gen_bytes((uint64_t)op.num("seed"), (size_t)op.num("size")), s, ns, op.num("new_inode") != 0);
}

// a change that shows only in the sub-second part of the time-stamp: same size, same second, other (or zero) nanoseconds;
// new bytes, or only the stamp (tools and file systems without sub-second precision produce the zero)
static void op_samesec_h(Exec& x, const Json& op, int)
{
	std::string rel = sel(x, op);
	if (rel.empty()) return;
	uint64_t sz; int64_t s, ns;
	Bytes b;
	if (!x.sb.stat_file(rel, sz, s, ns) || !x.sb.get_file(rel, b)) return;
	int64_t nns;
	switch (op.num("mode") % 4) {
	case 0: nns = 0; break;
	case 1: nns = 1; break;
	case 2: nns = ns > 0 ? ns - 1 : 999999999; break;
	default: nns = (ns + 1) % 1000000000; break;
	}
	if (nns == ns) nns = (ns + 7) % 1000000000;
	{
		// never a stamp this file already had with this size (two such steps could otherwise walk back to the recorded stamp
		// with other bytes: that is silent corruption, not a change)
		std::string top = rel.substr(0, rel.find('/')), sub = rel.substr(rel.find('/') + 1);
		std::string dn;
		for (auto& d : x.sb.cfg.disks) if (d.top == top) dn = d.name;
		for (int guard = 0; guard < 64 && !dn.empty() && x.sb.versions.get(dn, sub, sz, s, nns); ++guard) nns = (nns + 13) % 1000000000;
		// nor the stamp of another file with the same name and size anywhere in the array: with other bytes that would be a
		// decoy for the copy detection (family decoy's business)
		std::string base = sub.substr(sub.rfind('/') == std::string::npos ? 0 : sub.rfind('/') + 1);
		Snap all = x.sb.snapshot(x.sb.data_tops());
		for (int guard = 0; guard < 64; ++guard) {
			bool clash = false;
			for (auto& kv : all) {
				if (kv.second.type != 'f' || kv.first == rel || kv.second.data.size() != sz || kv.second.mtime_s != s || kv.second.mtime_ns != nns) continue;
				std::string b2 = kv.first.substr(kv.first.rfind('/') + 1);
				if (b2 == base) clash = true;
			}
			if (!clash) break;
			nns = (nns + 17) % 1000000000;
		}
	}
	if (op.num("rewrite") && !b.empty()) {
		Bytes nb = gen_bytes((uint64_t)op.num("seed"), b.size());
		if (nb == b) nb[0] = (char)(nb[0] ^ 1);
		x.sb.put_file(rel, nb, s, nns, op.num("new_inode") != 0);
	} else
		x.sb.set_mtime(rel, s, nns);
	x.probe("subsecond_only_change");
}

static void op_append_h(Exec& x, const Json& op, int)
{
	std::string rel = sel(x, op);
	if (rel.empty()) return;
	Bytes b;
	x.sb.get_file(rel, b);
	b += gen_bytes((uint64_t)op.num("seed"), (size_t)op.num("n"));
	int64_t s, ns;
	x.sb.next_stamp(s, ns);
	x.sb.put_file(rel, b, s, ns, false);
}

static void op_truncate_h(Exec& x, const Json& op, int)
{
	std::string rel = sel(x, op);
	if (rel.empty()) return;
	Bytes b;
	x.sb.get_file(rel, b);
	size_t n = (size_t)op.num("size");
	if (n >= b.size()) n = b.size() / 2;
	b.resize(n);
	int64_t s, ns;
	x.sb.next_stamp(s, ns);
	x.sb.put_file(rel, b, s, ns, false);
}

static void op_delete_h(Exec& x, const Json& op, int)
{
	std::string rel = sel(x, op);
	if (rel.empty()) return;
	struct stat st;
	{
		Bytes b;
		uint64_t sz; int64_t ms, mns;
		if (x.sb.get_file(rel, b) && x.sb.stat_file(rel, sz, ms, mns)) {
			x.vars["last_deleted_rel"] = Json(rel);
			x.vars["last_deleted_bytes"] = Json(b);
			x.vars["last_deleted_s"] = Json(ms);
			x.vars["last_deleted_ns"] = Json(mns);
		}
	}
	// an inode number can only be reused once its last name is gone
	if (lstat(x.sb.abs(rel).c_str(), &st) == 0) x.vars["last_deleted_vino"] = Json((uint64_t)(st.st_nlink <= 1 ? sim_vino_peek(st.st_ino) : 0));
	x.sb.remove_path(rel);
}

static void op_rename_h(Exec& x, const Json& op, int)
{
	std::string rel = sel(x, op);
	if (rel.empty()) return;
	std::string top = x.disk_top(op.has("d2") ? op.num("d2") : op.num("d"));
	std::string to = content_guard(x, top + "/" + op.str("name"));
	if (to.empty() || to == rel) return;
	struct stat st;
	if (lstat(x.sb.abs(to).c_str(), &st) == 0 && S_ISDIR(st.st_mode)) return;
	{
		size_t p = top.size();
		while ((p = to.find('/', p + 1)) != std::string::npos)
			if (lstat(x.sb.abs(to.substr(0, p)).c_str(), &st) == 0 && !S_ISDIR(st.st_mode)) return;
	}
	if (x.disk_top(op.num("d")) == top) {
		x.sb.rename_path(rel, to);
	} else {
		// move across disks: copy preserving the stamp, new inode, then delete
		Bytes b;
		uint64_t sz;
		int64_t s, ns;
		x.sb.get_file(rel, b);
		x.sb.stat_file(rel, sz, s, ns);
		x.sb.put_file(to, b, s, ns, true);
		x.sb.remove_path(rel);
	}
}

static void op_copy_h(Exec& x, const Json& op, int)
{
	std::string rel = sel(x, op);
	if (rel.empty()) return;
	std::string top = x.disk_top(op.num("d2"));
	std::string name = op.str("name");
	if (name.empty()) {
		// keep the same sub path (what copy detection keys on when nsec == 0)
		name = rel.substr(rel.find('/') + 1);
	}
	std::string to = content_guard(x, top + "/" + name);
	if (to.empty() || to == rel) return;
	struct stat st;
	if (lstat(x.sb.abs(to).c_str(), &st) == 0) return;
	{
		size_t p = top.size();
		while ((p = to.find('/', p + 1)) != std::string::npos)
			if (lstat(x.sb.abs(to.substr(0, p)).c_str(), &st) == 0 && !S_ISDIR(st.st_mode)) return;
	}
	Bytes b;
	uint64_t sz;
	int64_t s, ns;
	x.sb.get_file(rel, b);
	x.sb.stat_file(rel, sz, s, ns);
	x.sb.put_file(to, b, s, ns, true);
}

// put the last deleted file back (from the trash / a backup): same bytes, old or new stamp, same or another name
static void op_undelete_h(Exec& x, const Json& op, int)
{
	if (!x.vars.count("last_deleted_rel") || x.vars["last_deleted_rel"].s.empty()) return;
	std::string rel = x.vars["last_deleted_rel"].s;
	if (op.has("name")) rel = rel.substr(0, rel.find('/')) + "/" + op.str("name");
	struct stat st;
	if (lstat(x.sb.abs(rel).c_str(), &st) == 0) return;
	{
		size_t p = rel.find('/');
		while ((p = rel.find('/', p + 1)) != std::string::npos)
			if (lstat(x.sb.abs(rel.substr(0, p)).c_str(), &st) == 0 && !S_ISDIR(st.st_mode)) return;
	}
	int64_t s = x.vars["last_deleted_s"].i, ns = x.vars["last_deleted_ns"].i;
	if (op.num("new_stamp")) x.sb.next_stamp(s, ns);
	x.sb.put_file(rel, x.vars["last_deleted_bytes"].s, s, ns, true);
	x.vars["last_deleted_rel"] = Json(std::string());
	x.probe("undeleted");
}

// same bytes, same stamp, new inode (restore from a backup with cp -p)
static void op_reinode_h(Exec& x, const Json& op, int)
{
	std::string rel = sel(x, op);
	if (rel.empty()) return;
	struct stat st;
	if (lstat(x.sb.abs(rel).c_str(), &st) != 0 || st.st_nlink > 1) return;
	Bytes b;
	uint64_t sz;
	int64_t s, ns;
	x.sb.get_file(rel, b);
	x.sb.stat_file(rel, sz, s, ns);
	x.sb.put_file(rel, b, s, ns, true);
}

// rewrite the very same bytes: new stamp, optionally new inode
static void op_sametouch_h(Exec& x, const Json& op, int)
{
	std::string rel = sel(x, op);
	if (rel.empty()) return;
	Bytes b;
	x.sb.get_file(rel, b);
	int64_t s, ns;
	x.sb.next_stamp(s, ns);
	x.sb.put_file(rel, b, s, ns, op.num("new_inode") != 0);
}

static void op_touch_h(Exec& x, const Json& op, int)
{
	std::string rel = sel(x, op);
	if (rel.empty()) return;
	int64_t s, ns;
	x.sb.next_stamp(s, ns, op.num("zns") != 0);
	x.sb.set_mtime(rel, s, ns);
}

static void op_symlink_h(Exec& x, const Json& op, int)
{
	std::string rel = content_guard(x, x.disk_top(op.num("d")) + "/" + op.str("name"));
	if (rel.empty()) return;
	struct stat st;
	if (lstat(x.sb.abs(rel).c_str(), &st) == 0 && S_ISDIR(st.st_mode)) return;
	{
		size_t p = rel.find('/');
		while ((p = rel.find('/', p + 1)) != std::string::npos)
			if (lstat(x.sb.abs(rel.substr(0, p)).c_str(), &st) == 0 && !S_ISDIR(st.st_mode)) return;
	}
	x.sb.make_symlink(rel, op.str("target"));
}

static void op_hardlink_h(Exec& x, const Json& op, int)
{
	std::string target = sel(x, op);
	if (target.empty()) return;
	std::string rel = content_guard(x, x.disk_top(op.num("d")) + "/" + op.str("name"));
	if (rel.empty() || rel == target) return;
	struct stat st;
	if (lstat(x.sb.abs(rel).c_str(), &st) == 0) return;
	{
		size_t p = rel.find('/');
		while ((p = rel.find('/', p + 1)) != std::string::npos)
			if (lstat(x.sb.abs(rel.substr(0, p)).c_str(), &st) == 0 && !S_ISDIR(st.st_mode)) return;
	}
	x.sb.make_hardlink(rel, target);
}

static void op_mkdir_h(Exec& x, const Json& op, int)
{
	std::string rel = content_guard(x, x.disk_top(op.num("d")) + "/" + op.str("name"));
	if (rel.empty()) return;
	struct stat st;
	if (lstat(x.sb.abs(rel).c_str(), &st) == 0) return;
	{
		size_t p = rel.find('/');
		while ((p = rel.find('/', p + 1)) != std::string::npos)
			if (lstat(x.sb.abs(rel.substr(0, p)).c_str(), &st) == 0 && !S_ISDIR(st.st_mode)) return;
	}
	x.sb.make_dir(rel);
}

static void op_rmtree_h(Exec& x, const Json& op, int)
{
	std::string rel = content_guard(x, x.disk_top(op.num("d")) + "/" + op.str("name"));
	if (rel.empty()) return;
	// do not remove a tree holding a content copy
	for (auto& c : x.sb.cfg.content)
		if (starts_with(c, rel + "/")) return;
	x.sb.remove_path(rel);
}

// everything on a data disk goes (a replaced or wiped disk): files, links, directories; content copies stay
static void op_empty_disk_h(Exec& x, const Json& op, int)
{
	std::string top = x.disk_top(op.num("d"));
	Snap s = x.sb.snapshot({ top });
	for (auto it = s.rbegin(); it != s.rend(); ++it) {
		const std::string& rel = it->first;
		if (rel == top) continue;
		bool keep = false;
		for (auto& c : x.sb.cfg.content) if (rel == c || starts_with(rel, c + ".") || starts_with(c, rel + "/")) keep = true;
		if (!keep) x.sb.remove_path(rel);
	}
	x.probe("disk_emptied");
}

static void op_clock_h(Exec& x, const Json& op, int)
{
	x.sb.advance_clock(op.num("adv"));
}

static void op_cmd_h(Exec& x, const Json& op, int)
{
	CmdSpec s = CmdSpec::from_json(op.at("spec"));
	// a workload that has damaged data on purpose (silent corruption ops) asks for the parity/hash oracles to stay out of it
	bool saved = x.check_parity_every_cmd;
	if (op.num("no_parity_oracle")) x.check_parity_every_cmd = false;
	CmdResult r = x.cmd(s);
	x.check_parity_every_cmd = saved;
	std::string expect = op.str("expect", "any");
	if (expect == "ok" && r.exit_code != 0 && !r.harness_error)
		x.violation(op.str("prop", "H"), "unexpected-failure", s.cmd + strf(" exit=%d sig=%d: ", r.exit_code, r.term_sig) + r.err.substr(0, 400));
	if (op.num("mark_synced") && r.exit_code == 0) x.mark_synced();
}

static void op_mark_synced_h(Exec& x, const Json&, int) { x.mark_synced(); }

// start a hash migration: 'rehash' run with the other hash kind as the preferred one; later commands prefer it too
static void op_rehash_h(Exec& x, const Json& op, int)
{
	CmdSpec s;
	s.cmd = "rehash";
	s.no_hash_opt = true;
	char other = x.sb.cfg.hash == 'u' ? 'k' : 'u';
	s.opts = { other == 'u' ? "--test-force-murmur3" : "--test-force-spooky2" };
	s.sched_seed = (uint64_t)op.num("seed", 1);
	CmdResult r = x.cmd(s);
	if (r.exit_code == 0) { x.sb.cfg.hash = other; x.probe("hash_migration_started"); }
}

static struct RegisterGeneric {
	RegisterGeneric()
	{
		Exec::register_op("create", op_create_h);
		Exec::register_op("overwrite", op_overwrite_h);
		Exec::register_op("append", op_append_h);
		Exec::register_op("samesec", op_samesec_h);
		Exec::register_op("truncate", op_truncate_h);
		Exec::register_op("delete", op_delete_h);
		Exec::register_op("rename", op_rename_h);
		Exec::register_op("copy", op_copy_h);
		Exec::register_op("touch", op_touch_h);
		Exec::register_op("reinode", op_reinode_h);
		Exec::register_op("sametouch", op_sametouch_h);
		Exec::register_op("undelete", op_undelete_h);
		Exec::register_op("symlink", op_symlink_h);
		Exec::register_op("hardlink", op_hardlink_h);
		Exec::register_op("mkdir", op_mkdir_h);
		Exec::register_op("rmtree", op_rmtree_h);
		Exec::register_op("empty_disk", op_empty_disk_h);
		Exec::register_op("clock", op_clock_h);
		Exec::register_op("cmd", op_cmd_h);
		Exec::register_op("mark_synced", op_mark_synced_h);
		Exec::register_op("rehash", op_rehash_h);
	}
} register_generic;

// ------------------------------------------------------------------ generation helpers

Config gen_config(Rng& rng, int max_disks, int max_np, bool allow_split)
{
	Config c;
	c.block_kib = rng.chance(1, 5) ? 2 : 1;
	c.hash = rng.chance(1, 2) ? 'k' : 'u';
	c.hash_size = rng.chance(3, 4) ? 16 : 8;
	int nd = (int)rng.range(1, max_disks);
	c.zmode = rng.chance(1, 8);
	c.np = (int)rng.range(1, c.zmode ? std::min(3, max_np) : max_np);
	// bias towards small np
	if (c.np > 2 && rng.chance(1, 2)) c.np = (int)rng.range(1, 2);
	if (c.zmode && c.np < 3) c.zmode = false;
	for (int l = 0; l < c.np; ++l) c.splits.push_back(allow_split && rng.chance(1, 5) ? (int)rng.range(2, 4) : 1);
	bool uuids = rng.chance(1, 2);
	for (int i = 1; i <= nd; ++i) {
		DiskCfg d;
		d.name = strf("d%d", i);
		d.top = d.name;
		d.uuid = (uuids && !rng.chance(1, 6)) ? strf("uuid-%llx-%d", (unsigned long long)(rng.next() & 0xffff), i) : "";
		c.disks.push_back(d);
	}
	// content copies: at least np+1 on distinct devices (the tool insists)
	int ncopies = c.np + 1 + (int)rng.below(2);
	if (ncopies > 7) ncopies = 7;
	int sep = 0;
	for (int k = 0; k < ncopies; ++k) {
		if (k < nd && rng.chance(1, 2)) c.content.push_back(strf("d%d/content", k + 1));
		else c.content.push_back(strf("c%d/content", sep++));
	}
	c.fiemap_mode = (int)rng.below(3);
	c.scan_order = (int)rng.below(4);
	c.skip_fallocate = rng.chance(1, 4);
	return c;
}

std::string gen_name(Rng& rng, bool odd)
{
	static const char* plain[] = { "a", "b", "c", "file1", "file2", "x.dat", "notes.txt", "img", "k", "z9" };
	static const char* dirs[] = { "", "", "dir/", "dir/sub/", "alpha/", "b b/" };
	static const char* oddn[] = { "sp ace", "new\nline", "co:lon", "back\\slash", "gl*ob[1]?", "-dash", "\xff\xfe\x80", "tab\there", "q\"uote", "per%cent", ".hidden", "cr\rret", " lead", "trail " };
	std::string n = dirs[rng.below(6)];
	if (odd && rng.chance(1, 3)) n += oddn[rng.below(14)];
	else n += plain[rng.below(10)];
	if (rng.chance(1, 4)) n += strf("%d", (int)rng.below(4));
	return n;
}

uint64_t gen_size(Rng& rng, unsigned bs, unsigned max_blocks)
{
	switch (rng.below(10)) {
	case 0: return 0;
	case 1: return 1;
	case 2: return bs - 1;
	case 3: return bs;
	case 4: return bs + 1;
	case 5: return 2 * bs;
	case 6: return rng.range(2, max_blocks) * bs - 1;
	case 7: return rng.range(1, max_blocks - 1) * bs + 1;
	default: return rng.range(1, (int64_t)max_blocks * bs);
	}
}

Json op_create(Rng& rng, const Config& cfg, int disk, bool odd)
{
	Json o = Json::obj();
	o.set("k", "create").set("d", disk >= 0 ? (int64_t)disk : (int64_t)rng.below(cfg.disks.size())).set("name", gen_name(rng, odd))
		.set("size", gen_size(rng, cfg.block_size())).set("seed", rng.next() >> 1);
	return o;
}

Json op_cmd(const CmdSpec& s, const std::string& expect)
{
	return Json::obj().set("k", "cmd").set("spec", s.to_json()).set("expect", expect);
}

CmdSpec gen_sched(Rng& rng, CmdSpec s)
{
	s.sched_seed = rng.next() >> 1;
	switch (rng.below(8)) {
	case 0: case 1: case 2: s.policy = SP_RANDOM; break;
	case 3: s.policy = SP_PCT; s.policy_param = (int)rng.range(1, 3); break;
	case 4: s.policy = SP_RR; s.policy_param = (int)rng.range(1, 12); break;
	case 5: s.policy = SP_STARVE; s.policy_param = rng.chance(1, 2) ? (int)rng.below(16) : 100 + (int)rng.below(8); break;
	case 6: s.policy = rng.chance(1, 2) ? SP_MAIN_FIRST : SP_MAIN_LAST; break;
	default: s.policy = SP_FIFO; break;
	}
	s.spurious = rng.chance(1, 3) ? (int)rng.range(8, 64) : 0;
	return s;
}

std::vector<Json> gen_populate(Rng& rng, const Config& cfg, int lo, int hi, bool odd)
{
	std::vector<Json> v;
	for (size_t d = 0; d < cfg.disks.size(); ++d) {
		int n = (int)rng.range(lo, hi);
		for (int i = 0; i < n; ++i) v.push_back(op_create(rng, cfg, (int)d, odd));
	}
	return v;
}

std::vector<Json> gen_mutations(Rng& rng, const Config& cfg, int n, bool odd)
{
	std::vector<Json> v;
	unsigned bs = cfg.block_size();
	for (int i = 0; i < n; ++i) {
		int64_t d = (int64_t)rng.below(cfg.disks.size());
		int64_t f = (int64_t)rng.below(64);
		Json o = Json::obj();
		switch (rng.below(17)) {
		case 0: case 1: case 2: case 3:
			o = op_create(rng, cfg, (int)d, odd);
			break;
		case 16:
			o.set("k", "samesec").set("d", d).set("f", f).set("mode", (int)rng.below(4)).set("rewrite", (int)rng.chance(3, 4)).set("seed", rng.next() >> 1).set("new_inode", (int)rng.below(2));
			break;
		case 4: case 5:
			o.set("k", "overwrite").set("d", d).set("f", f).set("size", gen_size(rng, bs)).set("seed", rng.next() >> 1).set("new_inode", (int)rng.below(2));
			break;
		case 6:
			o.set("k", "append").set("d", d).set("f", f).set("n", rng.range(1, 3 * bs)).set("seed", rng.next() >> 1);
			break;
		case 7:
			o.set("k", "truncate").set("d", d).set("f", f).set("size", rng.range(0, 4 * bs));
			break;
		case 8: case 9:
			o.set("k", "delete").set("d", d).set("f", f);
			break;
		case 10:
			o.set("k", "rename").set("d", d).set("f", f).set("name", gen_name(rng, odd));
			break;
		case 11:
			o.set("k", "rename").set("d", d).set("f", f).set("d2", (int64_t)rng.below(cfg.disks.size())).set("name", gen_name(rng, odd));
			break;
		case 12:
			o.set("k", "copy").set("d", d).set("f", f).set("d2", (int64_t)rng.below(cfg.disks.size())).set("name", rng.chance(1, 2) ? gen_name(rng, odd) : std::string());
			break;
		case 13:
			o.set("k", "touch").set("d", d).set("f", f);
			break;
		case 14:
			if (rng.chance(1, 2)) o.set("k", "symlink").set("d", d).set("name", gen_name(rng, odd)).set("target", rng.chance(1, 2) ? gen_name(rng, odd) : std::string("../x/y"));
			else o.set("k", "hardlink").set("d", d).set("f", f).set("name", gen_name(rng, odd));
			break;
		default:
			if (rng.chance(1, 2)) o.set("k", "mkdir").set("d", d).set("name", gen_name(rng, false) + "_d");
			else o.set("k", "rmtree").set("d", d).set("name", rng.chance(1, 2) ? "dir" : "alpha");
			break;
		}
		v.push_back(o);
	}
	return v;
}

// Idioms: short scripted fragments with explicit names that reach states the uniform mutation mix rarely produces:
// copies detected by name+size+stamp (REP blocks) left pending by a partial sync and then disturbed, moves, same-size rewrites.
std::vector<Json> gen_idiom(Rng& rng, const Config& cfg, int tag)
{
	std::vector<Json> v;
	unsigned bs = cfg.block_size();
	if (cfg.disks.size() >= 2 && rng.chance(1, 6)) {
		// a whole disk is emptied (its file reaching past the data of the other disks), and the sync that records it stops early
		int64_t d = (int64_t)rng.below(cfg.disks.size());
		std::string name = strf("idiom%d/big", tag);
		v.push_back(Json::obj().set("k", "create").set("d", d).set("name", name).set("size", rng.range(3, 12) * bs + (rng.chance(1, 2) ? 0 : rng.range(1, bs - 1))).set("seed", rng.next() >> 1));
		CmdSpec s;
		s.cmd = "sync";
		s.opts = { "-E", "-Z" };
		v.push_back(op_cmd(gen_sched(rng, s)));
		v.push_back(Json::obj().set("k", "empty_disk").set("d", d));
		CmdSpec k;
		k.cmd = "sync";
		k.opts = { "-E", "-Z" };
		switch (rng.below(4)) {
		case 0: k.opts.push_back("-B"); k.opts.push_back(strf("%d", (int)rng.range(1, 3))); k.opts.push_back("--test-kill-after-sync"); break;
		case 1: case 2: k.opts.push_back("-B"); k.opts.push_back(strf("%d", (int)rng.range(1, 4))); break;
		default: k.sig_at_io = (unsigned)rng.range(1, 6); k.sig_no = 2; break;
		}
		v.push_back(op_cmd(gen_sched(rng, k)));
		if (rng.chance(1, 2)) v.push_back(op_cmd(gen_sched(rng, s)));
		return v;
	}
	if (rng.chance(1, 3)) {
		// a deletion (or replacement) half processed by a sync that did not get to save its final state, then undone by the user
		int64_t d = (int64_t)rng.below(cfg.disks.size());
		std::string name = strf("idiom%d/gone", tag);
		uint64_t size = rng.range(1, 5) * bs + (rng.chance(1, 2) ? 0 : rng.range(1, bs - 1));
		v.push_back(Json::obj().set("k", "create").set("d", d).set("name", name).set("size", size).set("seed", rng.next() >> 1));
		CmdSpec s;
		s.cmd = "sync";
		s.opts = { "-E", "-Z" };
		v.push_back(op_cmd(gen_sched(rng, s)));
		v.push_back(Json::obj().set("k", "delete").set("d", d).set("sub", name));
		CmdSpec k;
		k.cmd = "sync";
		k.opts = { "-E", "-Z" };
		switch (rng.below(3)) {
		case 0: k.opts.push_back("--test-kill-after-sync"); break;
		case 1: k.opts.push_back("-B"); k.opts.push_back(strf("%d", (int)rng.range(1, 4))); break;
		default: break;
		}
		v.push_back(op_cmd(gen_sched(rng, k)));
		Json u = Json::obj().set("k", "undelete").set("new_stamp", (int)rng.below(2));
		if (rng.chance(1, 2)) u.set("name", name + ".back");
		v.push_back(u);
		return v;
	}
	int64_t d = (int64_t)rng.below(cfg.disks.size());
	int64_t d2 = (int64_t)rng.below(cfg.disks.size());
	std::string name = strf("idiom%d/%s", tag, rng.chance(1, 2) ? "src" : "s r:c");
	auto partial = [&]() {
		CmdSpec s;
		s.cmd = "sync";
		switch (rng.below(4)) {
		case 0: s.opts = { "-B", strf("%d", (int)rng.range(1, 3)) }; break;
		case 1: s.opts = { "-S", strf("%d", (int)rng.range(1, 6)), "-B", strf("%d", (int)rng.range(1, 4)) }; break;
		case 2: s.opts = { "--test-kill-after-sync" }; break;
		default: s.opts = { "-B", "1", "--test-io-cache", "1" }; break;
		}
		return op_cmd(gen_sched(rng, s));
	};
	auto full = [&]() {
		CmdSpec s;
		s.cmd = "sync";
		s.opts = { "-E", "-Z" };
		return op_cmd(gen_sched(rng, s));
	};
	uint64_t size = rng.range(1, 6) * bs + (rng.chance(1, 2) ? 0 : rng.range(1, bs - 1));
	v.push_back(Json::obj().set("k", "create").set("d", d).set("name", name).set("size", size).set("seed", rng.next() >> 1).set("zns", (int)rng.chance(1, 4)));
	v.push_back(full());
	switch (rng.below(3)) {
	case 0: // cp -p to another disk under the same path
		v.push_back(Json::obj().set("k", "copy").set("d", d).set("sub", name).set("d2", d2).set("name", name));
		break;
	case 1: // cp -p under another name in the same disk
		v.push_back(Json::obj().set("k", "copy").set("d", d).set("sub", name).set("d2", d).set("name", name + ".copy"));
		d2 = d;
		name += ".copy";
		break;
	default: // move across disks keeping the stamp
		v.push_back(Json::obj().set("k", "rename").set("d", d).set("sub", name).set("d2", d2).set("name", name));
		break;
	}
	v.push_back(rng.chance(3, 4) ? partial() : full());
	// disturb the copy while (some of) its blocks are still pending
	switch (rng.below(7)) {
	case 0: v.push_back(Json::obj().set("k", "touch").set("d", d2).set("sub", name)); break;
	case 1: v.push_back(Json::obj().set("k", "reinode").set("d", d2).set("sub", name)); break;
	case 2: v.push_back(Json::obj().set("k", "overwrite").set("d", d2).set("sub", name).set("size", size).set("seed", rng.next() >> 1).set("new_inode", (int)rng.below(2))); break;
	case 3: v.push_back(Json::obj().set("k", "delete").set("d", d2).set("sub", name)); break;
	case 4: v.push_back(Json::obj().set("k", "rename").set("d", d2).set("sub", name).set("name", name + ".moved")); break;
	case 5: v.push_back(Json::obj().set("k", "sametouch").set("d", d2).set("sub", name)); break;
	default: break;
	}
	if (rng.chance(1, 3)) v.push_back(partial());
	return v;
}
