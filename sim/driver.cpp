// driver.cpp - snapsim entry point
#include <cstdarg>
#include <unistd.h>
#include <sys/stat.h>
#include "sandbox.hpp"
#include "model/contentfile.hpp"

int smoke_main(int argc, char** argv);

int main(int argc, char** argv)
{
	if (!sim_shared_create()) { fprintf(stderr, "cannot map shared state\n"); return 2; }
	if (argc >= 2 && !strcmp(argv[1], "smoke")) return smoke_main(argc, argv);
	fprintf(stderr, "usage: snapsim smoke\n");
	return 2;
}

int smoke_main(int argc, char** argv)
{
	uint64_t seed = argc > 2 ? strtoull(argv[2], 0, 10) : 1;
	Config c;
	c.np = 2; c.splits = { 1, 2 };
	for (int i = 1; i <= 3; ++i) { DiskCfg d; d.name = strf("d%d", i); d.top = d.name; d.uuid = strf("uuid-%d", i); c.disks.push_back(d); }
	c.content = { "c0/content", "c1/content", "d1/content" };
	std::string root = strf("/dev/shm/snapsim.%d", (int)getpid());
	rm_rf(root);
	Sandbox sb(root, c, seed);
	sb.setup();
	Rng rng(seed);
	for (int d = 1; d <= 3; ++d)
		for (int f = 0; f < 4; ++f) {
			int64_t s, ns;
			sb.next_stamp(s, ns);
			sb.put_file(strf("d%d/dir%d/file%d", d, f % 2, f), gen_bytes(rng.next(), rng.below(5000)), s, ns);
		}
	CmdSpec sync; sync.cmd = "sync"; sync.sched_seed = seed;
	CmdResult r = sb.run(sync);
	printf("sync exit=%d sig=%d muts=%u ios=%u ev=%u threads=%u decisions=%u hash=%016llx\n", r.exit_code, r.term_sig, r.info.mut_count, r.info.io_count, r.info.nev, r.info.threads_created, r.info.decisions, (unsigned long long)trace_hash(r));
	printf("--- out\n%s--- err\n%s", r.out.c_str(), r.err.c_str());
	Bytes cf;
	read_file(sb.abs("c0/content"), cf);
	Content ct;
	std::string e = content_decode(cf, ct);
	printf("content: %zu bytes decode='%s' v%d files=%zu blockmax=%u maps=%zu\n", cf.size(), e.c_str(), ct.version, ct.files.size(), ct.blockmax, ct.maps.size());
	Bytes re = content_encode(ct);
	printf("re-encode identical: %d\n", re == cf);
	CmdSpec chk; chk.cmd = "check"; chk.sched_seed = seed + 1;
	r = sb.run(chk);
	printf("check exit=%d ev=%u threads=%u decisions=%u\n", r.exit_code, r.info.nev, r.info.threads_created, r.info.decisions);
	printf("%s", trace_digest_text(r, 30).c_str());
	rm_rf(root);
	return 0;
}
