// driver.cpp - snapsim entry point: check / replay / run / selfcheck
#include <cstdarg>
#include <unistd.h>
#include <fcntl.h>
#include <signal.h>
#include <time.h>
#include <sys/stat.h>
#include <sys/wait.h>
#include <sys/personality.h>
#include "run.hpp"

static double now_wall()
{
	struct timespec ts;
	clock_gettime(CLOCK_MONOTONIC, &ts);
	return ts.tv_sec + ts.tv_nsec / 1e9;
}

int golden_make(const std::string& outdir, int count, const std::string& ref_commit, const std::string& shm);
static std::string g_verif = "/verif";
static std::string g_out = "/verif"; // where evidence and replay files go (SNAPSIM_OUT for trial runs against seeded patches)
static std::string g_shm;

#ifdef SIM_SAN
extern "C" __attribute__((used)) const char* __asan_default_options() { return "exitcode=77:detect_leaks=0:abort_on_error=0:allocator_may_return_null=1:handle_abort=0"; }
extern "C" __attribute__((used)) const char* __ubsan_default_options() { return "halt_on_error=1:exitcode=77:print_stacktrace=0"; }
#endif

static uint64_t run_seed_of(uint64_t base, const std::string& family, uint64_t index)
{
	return mix64(mix64(base, hash_str(family)), index) >> 1;
}

// ------------------------------------------------------------------ outcome <-> json (worker -> parent)

static Json outcome_json(const RunPlan& p, const RunOutcome& o, uint64_t index, double wall)
{
	Json j = Json::obj();
	j.set("index", index).set("family", p.family).set("seed", p.seed).set("commands", o.commands).set("cases", o.cases)
		.set("nontrivial_cases", o.nontrivial_cases).set("sim_seconds", o.sim_seconds).set("decisions", o.decisions)
		.set("nontrivial", o.nontrivial).set("digest", o.digest).set("harness_error", o.harness_error).set("harness_msg", o.harness_msg).set("wall", wall);
	Json il = Json::arr();
	for (auto h : o.interleavings) il.push(h);
	j.set("interleavings", il);
	Json ch = Json::arr();
	for (auto h : o.case_hashes) ch.push(h);
	j.set("case_hashes", ch);
	Json pr = Json::obj();
	for (auto& kv : o.probes) pr.set(kv.first, kv.second);
	j.set("probes", pr);
	Json fl = Json::obj();
	for (auto& kv : o.faults) fl.set(kv.first, kv.second);
	j.set("faults", fl);
	Json vs = Json::arr();
	for (auto& v : o.viol) vs.push(Json::obj().set("prop", v.prop).set("cls", v.cls).set("msg", v.msg).set("op", v.op_index).set("focus", v.focus));
	j.set("viol", vs);
	std::string ops;
	uint64_t oh = 0;
	for (auto& op : p.ops) oh = mix64(oh, hash_str(op.dump()));
	oh = mix64(oh, hash_str(p.cfg.to_json().dump()));
	j.set("ops_hash", oh).set("nops", (uint64_t)p.ops.size());
	if (o.sample.type != Json::NUL) j.set("sample", o.sample);
	return j;
}

// ------------------------------------------------------------------ known findings

struct Known {
	std::string prop, id, status, cls, what;
	std::vector<std::string> must; // substrings of the message
};

static std::vector<Known> load_known()
{
	std::vector<Known> v;
	Bytes b;
	if (!read_file(g_verif + "/known_findings.json", b)) return v;
	Json j;
	if (!Json::parse(b, j)) return v;
	for (auto& e : j.at("findings").a) {
		Known k;
		k.prop = e.str("property"); k.id = e.str("id"); k.status = e.str("status"); k.cls = e.str("class"); k.what = e.str("what");
		for (auto& m : e.at("message_contains").a) k.must.push_back(m.s);
		v.push_back(k);
	}
	return v;
}

static const Known* match_known(const std::vector<Known>& ks, const std::string& prop, const std::string& cls, const std::string& msg)
{
	for (auto& k : ks) {
		if (k.status != "known") continue; // fixed entries suppress nothing
		if (k.prop != prop || k.cls != cls) continue;
		bool ok = true;
		for (auto& m : k.must) if (msg.find(m) == std::string::npos) ok = false;
		if (ok) return &k;
	}
	return nullptr;
}

// ------------------------------------------------------------------ executing one plan in a fresh process

static bool run_plan_fresh(const RunPlan& p, Json& result, int timeout_s = 300)
{
	static int counter = 0;
	std::string file = g_shm + strf("/fresh%d.json", counter++);
	fflush(stdout);
	pid_t pid = fork();
	if (pid == 0) {
		sim_shared_create(); // private simulation state for this process tree
		alarm(timeout_s);
		double t0 = now_wall();
		RunOutcome o = execute_plan(p, g_shm + "/fresh");
		Json j = outcome_json(p, o, 0, now_wall() - t0);
		write_file(file, j.dump());
		_exit(0);
	}
	int st = 0;
	while (waitpid(pid, &st, 0) < 0 && errno == EINTR) {}
	Bytes b;
	bool ok = WIFEXITED(st) && WEXITSTATUS(st) == 0 && read_file(file, b) && Json::parse(b, result);
	unlink(file.c_str());
	return ok;
}

static bool has_violation(const Json& res, const std::string& prop, const std::string& cls)
{
	for (auto& v : res.at("viol").a)
		if (v.str("prop") == prop && v.str("cls") == cls) return true;
	return false;
}

static const Json* find_violation(const Json& res, const std::string& prop, const std::string& cls)
{
	for (auto& v : res.at("viol").a)
		if (v.str("prop") == prop && v.str("cls") == cls) return &v;
	return nullptr;
}

// ddmin over ops; the op that raised the violation (and its focus) is kept
static RunPlan minimise(const RunPlan& orig, const std::string& prop, const std::string& cls, int viol_op, const Json& focus, int& reruns)
{
	RunPlan best = orig;
	best.focus = focus;
	best.focus_op = focus.type != Json::NUL ? viol_op : -1;
	std::vector<int> keep; // indices into orig.ops
	for (size_t i = 0; i < orig.ops.size(); ++i) keep.push_back((int)i);
	// ops after the violating op are irrelevant
	if (viol_op >= 0) keep.resize((size_t)viol_op + 1);
	auto build = [&](const std::vector<int>& idx) {
		RunPlan p = orig;
		p.ops.clear();
		p.focus = focus;
		p.focus_op = -1;
		for (size_t k = 0; k < idx.size(); ++k) {
			if (idx[k] == viol_op && focus.type != Json::NUL) p.focus_op = (int)k;
			p.ops.push_back(orig.ops[(size_t)idx[k]]);
		}
		return p;
	};
	auto fails = [&](const std::vector<int>& idx) {
		if (reruns >= 300) return false;
		++reruns;
		Json r;
		RunPlan p = build(idx);
		if (!run_plan_fresh(p, r, 120)) return false;
		return has_violation(r, prop, cls);
	};
	double t0 = now_wall();
	if (!fails(keep)) return best; // truncation changed behaviour: keep the original
	best = build(keep);
	size_t n = 2;
	while (keep.size() >= 2 && now_wall() - t0 < 60 && reruns < 300) {
		size_t chunk = (keep.size() + n - 1) / n;
		bool reduced = false;
		for (size_t s = 0; s < keep.size(); s += chunk) {
			std::vector<int> cand;
			for (size_t i = 0; i < keep.size(); ++i) {
				bool in_chunk = i >= s && i < s + chunk;
				if (!in_chunk || keep[i] == viol_op) cand.push_back(keep[i]);
			}
			if (cand.size() == keep.size()) continue;
			if (fails(cand)) {
				keep = cand;
				best = build(keep);
				n = std::max<size_t>(n - 1, 2);
				reduced = true;
				break;
			}
		}
		if (!reduced) {
			if (n >= keep.size()) break;
			n = std::min(keep.size(), n * 2);
		}
	}
	return best;
}

// ------------------------------------------------------------------ check

struct Agg {
	uint64_t runs = 0, commands = 0, cases = 0, nontrivial_cases = 0, decisions = 0;
	int64_t sim_seconds = 0;
	std::set<uint64_t> ops_hashes, nontrivial_hashes, interleavings, case_hashes;
	std::map<std::string, uint64_t> probes, faults;
	std::vector<Json> samples;
	std::vector<Json> own_viol, cross;
	uint64_t determinism_checked = 0, determinism_mismatch = 0;
	std::map<std::string, uint64_t> runs_by_family;
	bool harness_error = false;
	std::string harness_msg;
};

static int do_check(const std::string& prop, int tier, uint64_t base_seed, int jobs, int runs_override, const std::string& only_family)
{
	const CheckDef* def = nullptr;
	for (auto& d : check_table()) if (d.prop == prop) def = &d;
	static CheckDef any;
	if (prop == "ANY") {
		// debugging aid: run one family and show every violation of every property (no evidence written)
		any.prop = "ANY"; any.level = "exploration"; any.rule = "debug";
		any.parts = { { only_family, runs_override > 0 ? runs_override : 200, runs_override > 0 ? runs_override : 200 } };
		def = &any;
	}
	if (!def) { fprintf(stderr, "no check for %s\n", prop.c_str()); return 2; }
	double t0 = now_wall();
	// work list
	struct Item { const Family* fam; uint64_t index; };
	std::vector<Item> items;
	for (auto& part : def->parts) {
		if (!only_family.empty() && part.family != only_family) continue;
		const Family* f = find_family(part.family);
		if (!f) { fprintf(stderr, "unknown family %s\n", part.family.c_str()); return 2; }
		int n = tier ? part.thorough : part.quick;
		if (runs_override > 0) n = runs_override;
		for (int i = 0; i < n; ++i) items.push_back({ f, (uint64_t)i });
	}
	// interleave families so that every worker sees a mix
	std::vector<pid_t> pids;
	for (int w = 0; w < jobs; ++w) {
		fflush(stdout);
		pid_t pid = fork();
		if (pid == 0) {
			sim_shared_create();
			std::string outp = g_shm + strf("/w%d.jsonl", w);
			FILE* f = fopen(outp.c_str(), "w");
			std::string root = g_shm + strf("/w%d", w);
			for (size_t i = (size_t)w; i < items.size(); i += (size_t)jobs) {
				uint64_t seed = run_seed_of(base_seed, items[i].fam->name, items[i].index);
				fprintf(f, "{\"start\":%zu}\n", i);
				fflush(f);
				double ts = now_wall();
				RunPlan p = items[i].fam->gen(seed, tier);
				RunOutcome o = execute_plan(p, root);
				Json j = outcome_json(p, o, items[i].index, now_wall() - ts);
				// determinism sample: re-execute ~3% of the runs and compare digests
				if ((mix64(seed, 99) % 32) == 0 && !o.harness_error) {
					RunOutcome o2 = execute_plan(p, root);
					j.set("det_checked", 1).set("det_equal", o2.digest == o.digest && o2.viol.size() == o.viol.size());
				}
				if (!o.viol.empty()) j.set("plan", p.to_json());
				fprintf(f, "%s\n", j.dump().c_str());
				fflush(f);
			}
			fclose(f);
			_exit(0);
		}
		pids.push_back(pid);
	}
	Agg a;
	for (int w = 0; w < jobs; ++w) {
		int st = 0;
		while (waitpid(pids[(size_t)w], &st, 0) < 0 && errno == EINTR) {}
		bool died = !(WIFEXITED(st) && WEXITSTATUS(st) == 0);
		Bytes b;
		read_file(g_shm + strf("/w%d.jsonl", w), b);
		int64_t last_start = -1;
		bool last_done = true;
		for (auto& line : split(b, '\n')) {
			if (line.empty()) continue;
			Json j;
			if (!Json::parse(line, j)) continue;
			if (j.has("start")) { last_start = j.num("start"); last_done = false; continue; }
			last_done = true;
			++a.runs;
			a.runs_by_family[j.str("family")]++;
			a.commands += (uint64_t)j.num("commands");
			a.cases += (uint64_t)j.num("cases");
			a.nontrivial_cases += (uint64_t)j.num("nontrivial_cases");
			a.decisions += (uint64_t)j.num("decisions");
			a.sim_seconds += j.num("sim_seconds");
			a.ops_hashes.insert((uint64_t)j.num("ops_hash"));
			if (j.at("nontrivial").b) a.nontrivial_hashes.insert((uint64_t)j.num("ops_hash"));
			for (auto& h : j.at("interleavings").a) a.interleavings.insert((uint64_t)h.i);
			for (auto& h : j.at("case_hashes").a) a.case_hashes.insert((uint64_t)h.i);
			for (auto& kv : j.at("probes").o) a.probes[kv.first] += (uint64_t)kv.second.i;
			for (auto& kv : j.at("faults").o) a.faults[kv.first] += (uint64_t)kv.second.i;
			if (j.has("det_checked")) {
				++a.determinism_checked;
				if (!j.at("det_equal").b) {
					++a.determinism_mismatch;
					fprintf(stderr, "HARNESS: run %s #%lld (seed %llu) gave a different digest when executed twice\n", j.str("family").c_str(), (long long)j.num("index"), (unsigned long long)j.num("seed"));
				}
			}
			if (j.at("harness_error").b) { a.harness_error = true; if (a.harness_msg.empty()) a.harness_msg = j.str("harness_msg"); }
			if (j.has("sample") && a.samples.size() < 4) a.samples.push_back(j.at("sample"));
			for (auto& v : j.at("viol").a) {
				Json e = Json::obj();
				e.set("prop", v.str("prop")).set("cls", v.str("cls")).set("msg", v.str("msg")).set("family", j.str("family")).set("seed", j.at("seed")).set("index", j.at("index")).set("op", v.at("op")).set("focus", v.at("focus"));
				if (v.str("prop") == prop || prop == "ANY") { e.set("plan", j.at("plan")); if (prop == "ANY") e.set("cls", v.str("prop") + "/" + v.str("cls")); a.own_viol.push_back(e); }
				else if (a.cross.size() < 40) a.cross.push_back(e);
			}
		}
		if (died || !last_done) {
			a.harness_error = true;
			if (a.harness_msg.empty()) a.harness_msg = strf("worker %d died at item %lld", w, (long long)last_start);
		}
	}
	if (a.determinism_mismatch) { a.harness_error = true; a.harness_msg = "determinism sample mismatch"; }

	// ---- triage own violations: known findings, gate, minimise, replay files
	std::vector<Known> known = load_known();
	if (prop == "ANY") {
		std::map<std::string, int> cc;
		std::map<std::string, std::string> ex;
		for (auto& v : a.own_viol) { cc[v.str("cls")]++; if (!ex.count(v.str("cls"))) ex[v.str("cls")] = strf("(%s #%lld) ", v.str("family").c_str(), (long long)v.num("index")) + v.str("msg").substr(0, 300); }
		for (auto& kv : cc) printf("  %s x%d e.g. %s\n", kv.first.c_str(), kv.second, ex[kv.first].c_str());
		printf("sweep %s runs=%llu\n", only_family.c_str(), (unsigned long long)a.runs);
		return 0;
	}
	int violations = 0;
	std::set<std::string> known_printed;
	std::vector<Json> known_hits;
	std::set<std::string> reported_classes;
	std::map<std::string, int> resolved_known;
	int unexamined = 0;
	bool gate_failed = false;
	for (auto& v : a.own_viol) {
		std::string cls = v.str("cls"), msg = v.str("msg");
		const Known* k = match_known(known, prop, cls, msg);
		if (k) {
			if (known_printed.insert(k->id).second) {
				printf("KNOWN-FINDING: property=%s %s: %s\n", prop.c_str(), k->id.c_str(), k->what.c_str());
				known_hits.push_back(Json::obj().set("id", k->id).set("example", msg).set("seed", v.at("seed")));
			}
			continue;
		}
		// one replay per violation class is enough: further instances are only counted
		if (reported_classes.count(cls)) { ++violations; continue; }
		// classes whose earlier instance turned out (after minimisation) to be a known finding are examined again, a few times
		if (resolved_known[cls] >= 4) { ++unexamined; continue; }
		// gate: reproduce twice in fresh processes with the same class
		RunPlan p = RunPlan::from_json(v.at("plan"));
		Json r1, r2;
		bool ok1 = run_plan_fresh(p, r1) && has_violation(r1, prop, cls);
		bool ok2 = run_plan_fresh(p, r2) && has_violation(r2, prop, cls);
		if (!ok1 || !ok2 || r1.num("digest") != r2.num("digest")) {
			gate_failed = true;
			fprintf(stderr, "HARNESS: violation %s/%s of seed %lld did not reproduce deterministically\n", prop.c_str(), cls.c_str(), (long long)v.num("seed"));
			continue;
		}
		int reruns = 0;
		RunPlan m = minimise(p, prop, cls, (int)v.num("op"), v.at("focus"), reruns);
		Json rm;
		bool okm = run_plan_fresh(m, rm) && has_violation(rm, prop, cls);
		if (!okm) { m = p; m.focus = v.at("focus"); m.focus_op = v.at("focus").type != Json::NUL ? (int)v.num("op") : -1; run_plan_fresh(m, rm); }
		const Json* mv = find_violation(rm, prop, cls);
		// the minimised case may itself be a known finding
		if (mv) {
			const Known* k2 = match_known(known, prop, cls, mv->str("msg"));
			if (k2) {
				if (known_printed.insert(k2->id).second) printf("KNOWN-FINDING: property=%s %s: %s\n", prop.c_str(), k2->id.c_str(), k2->what.c_str());
				resolved_known[cls]++;
				continue;
			}
		}
		reported_classes.insert(cls);
		mkdir((g_out + "/replays").c_str(), 0755);
		std::string path = g_out + strf("/replays/%s-%s-%llu.json", prop.c_str(), v.str("family").c_str(), (unsigned long long)v.num("seed"));
		Json rep = Json::obj();
		rep.set("property", prop).set("class", cls).set("message", mv ? mv->str("msg") : msg).set("family", v.str("family")).set("run_seed", v.at("seed"))
			.set("verif_seed", base_seed).set("digest", rm.at("digest")).set("original_ops", (uint64_t)p.ops.size()).set("minimised_ops", (uint64_t)m.ops.size())
			.set("minimise_reruns", reruns).set("plan", m.to_json());
		write_file(path, rep.dump(1));
		printf("VIOLATION property=%s replay=%s\n", prop.c_str(), path.c_str());
		printf("  class=%s family=%s seed=%llu ops=%zu->%zu: %s\n", cls.c_str(), v.str("family").c_str(), (unsigned long long)v.num("seed"), p.ops.size(), m.ops.size(), (mv ? mv->str("msg") : msg).substr(0, 500).c_str());
		++violations;
	}

	// ---- evidence
	double wall = now_wall() - t0;
	Json ev = Json::obj();
	ev.set("property_id", prop).set("tier", tier ? "thorough" : "quick").set("seed", base_seed).set("level", def->level);
	Json cov = Json::obj();
	uint64_t evaluations = a.runs + a.cases;
	uint64_t distinct_nt = a.nontrivial_hashes.size() + a.case_hashes.size();
	cov.set("evaluations", evaluations).set("distinct_nontrivial", distinct_nt).set("rule", def->rule);
	Json samples = Json::arr();
	for (auto& s : a.samples) samples.push(s);
	cov.set("samples", samples);
	cov.set("runs", a.runs).set("enumerated_cases", a.cases).set("nontrivial_cases", a.nontrivial_cases).set("distinct_op_sequences", (uint64_t)a.ops_hashes.size());
	Json rbf = Json::obj();
	for (auto& kv : a.runs_by_family) rbf.set(kv.first, kv.second);
	cov.set("runs_by_family", rbf);
	cov.set("commands_simulated", a.commands).set("scheduling_decisions", a.decisions).set("distinct_interleavings", (uint64_t)a.interleavings.size());
	cov.set("interleaving_measure", "hash of the sequence of (chosen thread, #runnable) over all scheduling decisions of a command");
	cov.set("simulated_seconds_covered", a.sim_seconds);
	cov.set("runs_per_hour", wall > 0 ? (double)a.runs * 3600.0 / wall : 0.0).set("commands_per_hour", wall > 0 ? (double)a.commands * 3600.0 / wall : 0.0);
	Json fl = Json::obj();
	for (auto& kv : a.faults) fl.set(kv.first, kv.second);
	cov.set("faults_fired", fl);
	Json pr = Json::obj();
	Json gaps = Json::arr();
	for (auto& kv : a.probes) { pr.set(kv.first, kv.second); }
	cov.set("probes", pr);
	cov.set("determinism_sample", Json::obj().set("runs_reexecuted", a.determinism_checked).set("mismatches", a.determinism_mismatch));
	cov.set("real_components", Json::arr().push("all snapraid objects compiled from /repo working tree").push("kernel tmpfs (file data, directory semantics, rename, flock, fallocate)"));
	cov.set("simulated_components", Json::arr().push("thread scheduler (mutex/cond/join, wake-up choice, spurious wake-ups)").push("clock").push("inode/device/uuid/statfs/fiemap metadata").push("directory order").push("/dev/urandom").push("fault injection (kill, torn write, EIO/ENOSPC, short read, signals, concurrent change, device budgets)").push("external programs (refused)"));
	Json cf = Json::arr();
	for (auto& c : a.cross) cf.push(Json::obj().set("prop", c.str("prop")).set("cls", c.str("cls")).set("family", c.str("family")).set("seed", c.at("seed")).set("msg", c.str("msg").substr(0, 300)));
	cov.set("cross_findings", cf);
	Json kh = Json::arr();
	for (auto& k : known_hits) kh.push(k);
	cov.set("known_findings_hit", kh);
	cov.set("violations_of_known_shape_not_reexamined", unexamined);
	cov.set("exhaustive", false);
	ev.set("coverage", cov);
	ev.set("assumptions", Json::arr().push("crash model = process death on a page-cache file system (completed calls persist)").push("arrays are small (<= 8 disks, <= 48 stripes, 1-2 KiB blocks)").push("oracles: independent content decoder, GF(2^8) generator, pinned reference hashes, harness copy of every file version"));
	ev.set("wall_s", wall).set("violations", violations);
	mkdir((g_out + "/evidence").c_str(), 0755);
	// when a single family is run for debugging do not overwrite the evidence
	if (only_family.empty() && runs_override <= 0) write_file(g_out + "/evidence/" + prop + ".json", ev.dump(1));
	else write_file(g_shm + "/evidence-debug.json", ev.dump(1));

	printf("check %s tier=%s runs=%llu cases=%llu commands=%llu distinct_nontrivial=%llu interleavings=%zu violations=%d cross=%zu wall=%.1fs\n", prop.c_str(), tier ? "thorough" : "quick",
		(unsigned long long)a.runs, (unsigned long long)a.cases, (unsigned long long)a.commands, (unsigned long long)distinct_nt, a.interleavings.size(), violations, a.cross.size(), wall);
	if (getenv("SNAPSIM_PROBES")) {
		for (auto& kv : a.probes) printf("  probe %s=%llu\n", kv.first.c_str(), (unsigned long long)kv.second);
		for (auto& kv : a.faults) printf("  fault %s=%llu\n", kv.first.c_str(), (unsigned long long)kv.second);
	}
	if (!a.own_viol.empty()) {
		std::map<std::string, int> cc;
		std::map<std::string, std::string> ex;
		for (auto& v : a.own_viol) {
			// group by class and by the "io cache N" / option part of the message when present
			std::string key = v.str("cls");
			std::string m = v.str("msg");
			size_t q = m.find("io cache ");
			if (q != std::string::npos) key += " [" + m.substr(q, m.find_first_of(":+ ", q + 9) - q) + "]";
			size_t b1 = m.rfind(" ["), b2 = m.rfind(']');
			if (b1 != std::string::npos && b2 != std::string::npos && b2 > b1 && b2 + 1 == m.size()) key += m.substr(b1, std::min<size_t>(b2 - b1 + 1, 60));
			cc[key]++;
			if (!ex.count(key)) ex[key] = strf("(%s #%lld) ", v.str("family").c_str(), (long long)v.num("index")) + m.substr(0, 260);
		}
		for (auto& kv : cc) printf("  own-violation class %s x%d e.g. %s\n", kv.first.c_str(), kv.second, ex[kv.first].c_str());
	}
	if (!a.cross.empty()) {
		std::map<std::string, int> cc;
		for (auto& c : a.cross) cc[c.str("prop") + "/" + c.str("cls")]++;
		for (auto& kv : cc) printf("  cross-finding %s x%d (see evidence)\n", kv.first.c_str(), kv.second);
	}
	if (a.harness_error || gate_failed) {
		fprintf(stderr, "HARNESS ERROR: %s\n", a.harness_msg.c_str());
		return 2;
	}
	return violations ? 1 : 0;
}

// ------------------------------------------------------------------ replay / run

static int do_replay(const std::string& file)
{
	Bytes b;
	Json j;
	if (!read_file(file, b) || !Json::parse(b, j)) { fprintf(stderr, "cannot read %s\n", file.c_str()); return 2; }
	RunPlan p = RunPlan::from_json(j.at("plan"));
	Json r;
	if (!run_plan_fresh(p, r, 3600)) { fprintf(stderr, "replay execution failed\n"); return 2; }
	std::string prop = j.str("property"), cls = j.str("class");
	const Json* v = find_violation(r, prop, cls);
	if (v) {
		printf("VIOLATION property=%s replay=%s\n  class=%s digest=%s: %s\n", prop.c_str(), file.c_str(), cls.c_str(), r.num("digest") == j.num("digest") ? "same" : "different", v->str("msg").substr(0, 800).c_str());
		return 1;
	}
	printf("replay: no violation of %s/%s\n", prop.c_str(), cls.c_str());
	for (auto& x : r.at("viol").a) printf("  other: %s/%s %s\n", x.str("prop").c_str(), x.str("cls").c_str(), x.str("msg").substr(0, 200).c_str());
	return 0;
}

static int do_run(const std::string& family, uint64_t index, int tier, uint64_t base, bool verbose)
{
	const Family* f = find_family(family);
	if (!f) { fprintf(stderr, "unknown family\n"); return 2; }
	uint64_t seed = getenv("SNAPSIM_PLANSEED") ? strtoull(getenv("SNAPSIM_PLANSEED"), 0, 10) : run_seed_of(base, family, index); // a seed quoted in evidence or a report
	RunPlan p = f->gen(seed, tier);
	if (verbose) printf("%s\n", p.to_json().dump(1).c_str());
	double t0 = now_wall();
	RunOutcome o = execute_plan(p, g_shm + "/run");
	if (getenv("SNAPSIM_CMDDIGEST")) {
		RunOutcome o2 = execute_plan(p, g_shm + "/run");
		for (size_t i = 0; i < o.cmd_digests.size() && i < o2.cmd_digests.size(); ++i)
			if (o.cmd_digests[i] != o2.cmd_digests[i]) {
				printf("first differing command #%zu:\n--- first\n%s\n--- second\n%s\n", i, o.cmd_lines[i].c_str(), o2.cmd_lines[i].c_str());
				break;
			}
		printf("in-process twice: %s\n", o.digest == o2.digest ? "same" : "DIFFERENT");
	}
	printf("run %s #%llu seed=%llu ops=%zu commands=%llu cases=%llu nontrivial=%d digest=%016llx wall=%.3f\n", family.c_str(), (unsigned long long)index, (unsigned long long)seed, p.ops.size(),
		(unsigned long long)o.commands, (unsigned long long)o.cases, (int)o.nontrivial, (unsigned long long)o.digest, now_wall() - t0);
	for (auto& kv : o.probes) printf("  probe %s=%llu\n", kv.first.c_str(), (unsigned long long)kv.second);
	for (auto& kv : o.faults) printf("  fault %s=%llu\n", kv.first.c_str(), (unsigned long long)kv.second);
	for (auto& v : o.viol) printf("  VIOL %s/%s op=%d %s %s\n", v.prop.c_str(), v.cls.c_str(), v.op_index, v.msg.substr(0, 600).c_str(), v.focus.type != Json::NUL ? v.focus.dump().c_str() : "");
	if (o.harness_error) printf("  HARNESS %s\n", o.harness_msg.c_str());
	return o.viol.empty() ? 0 : 1;
}

// determinism self check: many seeds x 2 executions across families
static int do_selfcheck(int n, int jobs, uint64_t base)
{
	std::vector<pid_t> pids;
	for (int w = 0; w < jobs; ++w) {
		pid_t pid = fork();
		if (pid == 0) {
			sim_shared_create();
			int bad = 0;
			std::string root = g_shm + strf("/s%d", w);
			for (int i = w; i < n; i += jobs) {
				const Family& f = families()[(size_t)i % families().size()];
				uint64_t seed = run_seed_of(base, f.name, (uint64_t)i);
				RunPlan p = f.gen(seed, 0);
				RunOutcome a = execute_plan(p, root);
				RunOutcome b = execute_plan(p, root);
				if (a.digest != b.digest || a.viol.size() != b.viol.size()) {
					printf("NONDETERMINISTIC family=%s index=%d seed=%llu\n", f.name.c_str(), i, (unsigned long long)seed);
					++bad;
				}
			}
			_exit(bad ? 1 : 0);
		}
		pids.push_back(pid);
	}
	int bad = 0;
	for (auto pid : pids) {
		int st = 0;
		waitpid(pid, &st, 0);
		if (!(WIFEXITED(st) && WEXITSTATUS(st) == 0)) ++bad;
	}
	printf("selfcheck determinism: %d runs x2, %d workers, %s\n", n, jobs, bad ? "MISMATCH" : "all digests equal");
	return bad ? 2 : 0;
}

// debugging aid: execute runs start, start+step, ... <= end in ONE process, each twice, and show the first differing command
static int do_seq(const std::string& family, uint64_t start, uint64_t step, uint64_t end, int tier, uint64_t base)
{
	const Family* f = find_family(family);
	if (!f) return 2;
	setenv("SNAPSIM_CMDDIGEST", "1", 1);
	for (uint64_t i = start; i <= end; i += step) {
		RunPlan p = f->gen(run_seed_of(base, family, i), tier);
		RunOutcome o = execute_plan(p, g_shm + "/seq");
		RunOutcome o2 = execute_plan(p, g_shm + "/seq");
		printf("#%llu %s\n", (unsigned long long)i, o.digest == o2.digest ? "same" : "DIFFERENT");
		if (o.digest != o2.digest) {
			for (size_t k = 0; k < o.cmd_digests.size() && k < o2.cmd_digests.size(); ++k)
				if (o.cmd_digests[k] != o2.cmd_digests[k]) {
					printf("first differing command #%zu:\n--- first\n%s\n--- second\n%s\n", k, o.cmd_lines[k].c_str(), o2.cmd_lines[k].c_str());
					break;
				}
			return 1;
		}
	}
	return 0;
}

static void cleanup_shm()
{
	if (!g_shm.empty()) rm_rf(g_shm);
}

int main(int argc, char** argv)
{
	// ASLR off for address-stable replays (best effort)
	if (!getenv("SNAPSIM_NOASLR_DONE")) {
		int pers = personality(0xffffffff);
		if (pers != -1 && !(pers & ADDR_NO_RANDOMIZE) && personality(pers | ADDR_NO_RANDOMIZE) != -1) {
			setenv("SNAPSIM_NOASLR_DONE", "1", 1);
			execv("/proc/self/exe", argv);
		}
	}
	if (!sim_shared_create()) { fprintf(stderr, "cannot map shared state\n"); return 2; }
	setvbuf(stdout, 0, _IOLBF, 0);
	if (getenv("SNAPSIM_VERIF")) g_verif = getenv("SNAPSIM_VERIF");
	g_out = g_verif;
	if (getenv("SNAPSIM_OUT")) { g_out = getenv("SNAPSIM_OUT"); mkdir(g_out.c_str(), 0755); }
	g_shm = strf("/dev/shm/snapsim.%d", (int)getpid());
	rm_rf(g_shm);
	mkdir(g_shm.c_str(), 0755);
	std::vector<std::string> args(argv + 1, argv + argc);
	auto opt = [&](const std::string& name, const std::string& def) {
		for (size_t i = 0; i + 1 < args.size(); ++i) if (args[i] == name) return args[i + 1];
		return def;
	};
	auto flag = [&](const std::string& name) { for (auto& a : args) if (a == name) return true; return false; };
	uint64_t seed = strtoull(opt("--seed", getenv("VERIF_SEED") ? getenv("VERIF_SEED") : "1").c_str(), 0, 10);
	std::string tier_s = opt("--tier", getenv("VERIF_TIER") ? getenv("VERIF_TIER") : "quick");
	int tier = tier_s == "thorough" ? 1 : 0;
	int jobs = atoi(opt("--jobs", "16").c_str());
	if (jobs < 1) jobs = 1;
	int rc = 2;
	if (args.size() >= 2 && args[0] == "check") rc = do_check(args[1], tier, seed, jobs, atoi(opt("--runs", "0").c_str()), opt("--family", ""));
	else if (args.size() >= 2 && args[0] == "replay") rc = do_replay(args[1]);
	else if (args.size() >= 3 && args[0] == "run") rc = do_run(args[1], strtoull(args[2].c_str(), 0, 10), tier, seed, flag("-v"));
	else if (args.size() >= 5 && args[0] == "seq") rc = do_seq(args[1], strtoull(args[2].c_str(), 0, 10), strtoull(args[3].c_str(), 0, 10), strtoull(args[4].c_str(), 0, 10), tier, seed);
	else if (args.size() >= 1 && args[0] == "selfcheck") rc = do_selfcheck(atoi(opt("--n", "400").c_str()), jobs, seed);
	else if (args.size() >= 4 && args[0] == "mkgolden") rc = golden_make(args[1], atoi(args[2].c_str()), args[3], g_shm);
	else if (args.size() >= 1 && args[0] == "list") { for (auto& f : families()) printf("%s %s\n", f.name.c_str(), f.prop.c_str()); rc = 0; }
	else fprintf(stderr, "usage: snapsim check <prop> [--tier t] [--seed n] [--jobs n] [--runs n] [--family f] | replay <file> | run <family> <index> [-v] | selfcheck | list\n");
	cleanup_shm();
	return rc;
}
