// sandbox.cpp - see sandbox.hpp
#include <cstdarg>
#include <fcntl.h>
#include <unistd.h>
#include <dirent.h>
#include <signal.h>
#include <sys/stat.h>
#include <sys/wait.h>
#include <sys/types.h>
#include <time.h>
#include <errno.h>
#include "sandbox.hpp"

extern "C" int snapraid_main(int argc, char** argv);
extern "C" unsigned STREAM_SIZE; // cmdline/stream.c: a plain global, so the knob needs no hook

// ------------------------------------------------------------------ helpers

bool read_file(const std::string& path, Bytes& out)
{
	out.clear();
	int fd = open(path.c_str(), O_RDONLY);
	if (fd < 0) return false;
	char buf[65536];
	for (;;) {
		ssize_t r = read(fd, buf, sizeof(buf));
		if (r < 0) { close(fd); return false; }
		if (r == 0) break;
		out.append(buf, (size_t)r);
	}
	close(fd);
	return true;
}

bool write_file(const std::string& path, const Bytes& data)
{
	int fd = open(path.c_str(), O_WRONLY | O_CREAT | O_TRUNC, 0644);
	if (fd < 0) return false;
	size_t off = 0;
	while (off < data.size()) {
		ssize_t r = write(fd, data.data() + off, data.size() - off);
		if (r <= 0) { close(fd); return false; }
		off += (size_t)r;
	}
	close(fd);
	return true;
}

void rm_rf(const std::string& path)
{
	struct stat st;
	if (lstat(path.c_str(), &st) != 0) return;
	if (S_ISDIR(st.st_mode)) {
		DIR* d = opendir(path.c_str());
		if (d) {
			std::vector<std::string> names;
			while (struct dirent* e = readdir(d)) {
				if (!strcmp(e->d_name, ".") || !strcmp(e->d_name, "..")) continue;
				names.push_back(e->d_name);
			}
			closedir(d);
			for (auto& n : names) rm_rf(path + "/" + n);
		}
		sim_vino_del(st.st_ino);
		rmdir(path.c_str());
	} else {
		if (st.st_nlink <= 1 && sim_sh) sim_vino_del(st.st_ino);
		unlink(path.c_str());
	}
}

Bytes gen_bytes(uint64_t seed, size_t n)
{
	Bytes b(n, '\0');
	if (n) sim_fill(seed, &b[0], n, 0);
	return b;
}

const char* ev_name(int k)
{
	switch (k) {
	case EV_OPEN: return "open"; case EV_CLOSE: return "close"; case EV_READ: return "read"; case EV_PREAD: return "pread";
	case EV_WRITE: return "write"; case EV_PWRITE: return "pwrite"; case EV_FSYNC: return "fsync"; case EV_FTRUNCATE: return "ftruncate";
	case EV_FALLOCATE: return "fallocate"; case EV_RENAME: return "rename"; case EV_REMOVE: return "remove"; case EV_RMDIR: return "rmdir";
	case EV_MKDIR: return "mkdir"; case EV_LINK: return "link"; case EV_SYMLINK: return "symlink"; case EV_UTIME: return "utime";
	case EV_STAT: return "stat"; case EV_LSTAT: return "lstat"; case EV_FSTAT: return "fstat"; case EV_OPENDIR: return "opendir";
	case EV_READLINK: return "readlink"; case EV_FLOCK: return "flock"; case EV_ACCESS: return "access"; case EV_STATFS: return "statfs";
	case EV_IO_START: return "io.start"; case EV_IO_STOP: return "io.stop"; case EV_IO_NEXT: return "io.next"; case EV_IO_GOT_DATA: return "io.got_data";
	case EV_IO_GOT_PARITY: return "io.got_parity"; case EV_IO_WROTE: return "io.wrote"; case EV_IO_WPRESET: return "io.wpreset"; case EV_IO_WNEXT: return "io.wnext";
	case EV_W_BEGIN: return "worker.begin"; case EV_W_END: return "worker.end";
	case EV_THREAD_CREATE: return "thread.create"; case EV_THREAD_EXIT: return "thread.exit"; case EV_FAULT: return "fault";
	case EV_SIGNAL: return "signal"; case EV_KILL: return "kill"; case EV_CONCURRENT: return "concurrent"; case EV_PARK: return "park";
	case EV_SYSTEM: return "system"; case EV_SLEEP: return "sleep"; case EV_COND_WAIT: return "cond.wait"; case EV_SPURIOUS: return "spurious";
	}
	return "?";
}

static bool aux_is_address(int kind)
{
	return kind == EV_PREAD || kind == EV_PWRITE || kind == EV_W_BEGIN || kind == EV_W_END;
}

uint64_t trace_hash(const CmdResult& r)
{
	uint64_t h = 1469598103934665603ULL;
	for (auto& e : r.trace) {
		h = mix64(h, ((uint64_t)e.kind << 32) | ((uint64_t)e.tid << 16) | e.flags);
		h = hash_str(r.path(e.path), h);
		h = mix64(h, (uint64_t)e.off);
		h = mix64(h, (uint64_t)e.len);
		h = mix64(h, (uint64_t)e.res);
		h = mix64(h, e.mut);
		if (!aux_is_address(e.kind)) {
			if (e.kind == EV_RENAME || e.kind == EV_LINK) h = hash_str(r.path((uint32_t)e.aux), h);
			else h = mix64(h, e.aux);
		}
	}
	h = mix64(h, r.info.decision_hash);
	h = mix64(h, (uint64_t)r.exit_code * 131 + r.term_sig);
	h = hash_str(r.out, h);
	h = hash_str(r.err, h);
	h = hash_str(r.log, h);
	return h;
}

std::string trace_digest_text(const CmdResult& r, size_t max_events)
{
	std::string s;
	size_t n = 0;
	for (auto& e : r.trace) {
		if (n++ >= max_events) { s += "...\n"; break; }
		s += strf("%u t%u %s %s off=%lld len=%lld res=%lld mut=%u%s\n", e.seq, e.tid, ev_name(e.kind), r.path(e.path).c_str(),
			(long long)e.off, (long long)e.len, (long long)e.res, e.mut, (e.flags & EVF_FAULT) ? " FAULT" : "");
	}
	return s;
}

// ------------------------------------------------------------------ Config / CmdSpec JSON

Json Config::to_json() const
{
	Json j = Json::obj();
	j.set("block_kib", block_kib).set("hash_size", hash_size).set("hash", std::string(1, hash)).set("zmode", zmode).set("np", np);
	Json sp = Json::arr();
	for (int s : splits) sp.push(s);
	j.set("splits", sp);
	Json ds = Json::arr();
	for (auto& d : disks) ds.push(Json::obj().set("name", d.name).set("top", d.top).set("uuid", d.uuid).set("in_config", d.in_config));
	j.set("disks", ds);
	Json cs = Json::arr();
	for (auto& c : content) cs.push(c);
	j.set("content", cs);
	j.set("pool", pool).set("share", share);
	Json fs = Json::arr();
	for (auto& f : filters) fs.push(f);
	j.set("filters", fs);
	j.set("nohidden", nohidden).set("parity_limit", parity_limit).set("autosave_at", autosave_at).set("fiemap_mode", fiemap_mode)
		.set("scan_order", scan_order).set("skip_fallocate", skip_fallocate).set("parity_prefix", std::string(1, parity_prefix));
	Json et = Json::arr();
	for (auto& t : extra_tops) et.push(t);
	j.set("extra_tops", et);
	Json bj = Json::obj();
	for (auto& kv : budgets) bj.set(kv.first, kv.second);
	j.set("budgets", bj);
	return j;
}

Config Config::from_json(const Json& j)
{
	Config c;
	c.block_kib = (int)j.num("block_kib", 1);
	c.hash_size = (int)j.num("hash_size", 16);
	c.hash = j.str("hash", "k")[0];
	c.zmode = j.at("zmode").b;
	c.np = (int)j.num("np", 1);
	for (auto& s : j.at("splits").a) c.splits.push_back((int)s.i);
	for (auto& d : j.at("disks").a) {
		DiskCfg dc;
		dc.name = d.str("name"); dc.top = d.str("top"); dc.uuid = d.str("uuid"); dc.in_config = d.at("in_config").b;
		c.disks.push_back(dc);
	}
	for (auto& s : j.at("content").a) c.content.push_back(s.s);
	c.pool = j.at("pool").b;
	c.share = j.str("share");
	for (auto& s : j.at("filters").a) c.filters.push_back(s.s);
	c.nohidden = j.at("nohidden").b;
	c.parity_limit = j.num("parity_limit");
	c.autosave_at = (int)j.num("autosave_at");
	c.fiemap_mode = (int)j.num("fiemap_mode", 1);
	c.scan_order = (int)j.num("scan_order");
	c.skip_fallocate = j.at("skip_fallocate").b;
	c.parity_prefix = j.str("parity_prefix", "p")[0];
	for (auto& t : j.at("extra_tops").a) c.extra_tops.push_back(t.s);
	for (auto& kv : j.at("budgets").o) c.budgets[kv.first] = kv.second.i;
	return c;
}

Json Fault::to_json() const
{
	Json j = Json::obj();
	j.set("kind", f.kind).set("opmask", f.opmask).set("path", std::string(f.path)).set("off_lo", f.off_lo).set("off_hi", f.off_hi)
		.set("nth", f.nth).set("err", f.err).set("count", f.count).set("action", f.action).set("apath", std::string(f.apath))
		.set("asize", f.asize).set("aseed", f.aseed).set("asec", f.asec).set("ansec", f.ansec);
	return j;
}

Fault Fault::from_json(const Json& j)
{
	Fault x;
	x.f.kind = (int)j.num("kind"); x.f.opmask = (int)j.num("opmask");
	snprintf(x.f.path, sizeof(x.f.path), "%s", j.str("path").c_str());
	x.f.off_lo = j.num("off_lo"); x.f.off_hi = j.num("off_hi"); x.f.nth = (int)j.num("nth"); x.f.err = (int)j.num("err");
	x.f.count = (int)j.num("count"); x.f.action = (int)j.num("action");
	snprintf(x.f.apath, sizeof(x.f.apath), "%s", j.str("apath").c_str());
	x.f.asize = j.num("asize"); x.f.aseed = (uint64_t)j.num("aseed"); x.f.asec = j.num("asec"); x.f.ansec = j.num("ansec");
	return x;
}

Json CmdSpec::to_json() const
{
	Json j = Json::obj();
	j.set("cmd", cmd);
	Json o = Json::arr();
	for (auto& s : opts) o.push(s);
	j.set("opts", o);
	j.set("sched_seed", sched_seed).set("policy", policy).set("policy_param", policy_param).set("spurious", spurious).set("lock_yield", lock_yield);
	if (kill_at) j.set("kill_at", kill_at).set("kill_mode", kill_mode);
	if (park_at) j.set("park_at", park_at);
	if (sig_at_io) j.set("sig_at_io", sig_at_io).set("sig_no", sig_no);
	if (malloc_fail_at) j.set("malloc_fail_at", malloc_fail_at);
	if (short_read) j.set("short_read", short_read);
	if (clock_jump_at) j.set("clock_jump_at", clock_jump_at).set("clock_jump_ns", clock_jump_ns);
	if (trace_stat) j.set("trace_stat", true);
	if (no_hash_opt) j.set("no_hash_opt", true);
	if (stream_size) j.set("stream_size", stream_size);
	if (!faults.empty()) {
		Json f = Json::arr();
		for (auto& x : faults) f.push(x.to_json());
		j.set("faults", f);
	}
	return j;
}

CmdSpec CmdSpec::from_json(const Json& j)
{
	CmdSpec s;
	s.cmd = j.str("cmd");
	for (auto& o : j.at("opts").a) s.opts.push_back(o.s);
	s.sched_seed = (uint64_t)j.num("sched_seed", 1);
	s.policy = (int)j.num("policy"); s.policy_param = (int)j.num("policy_param"); s.spurious = (int)j.num("spurious"); s.lock_yield = (int)j.num("lock_yield", 8);
	s.kill_at = (unsigned)j.num("kill_at"); s.kill_mode = (int)j.num("kill_mode");
	s.park_at = (unsigned)j.num("park_at");
	s.sig_at_io = (unsigned)j.num("sig_at_io"); s.sig_no = (int)j.num("sig_no", 2);
	s.malloc_fail_at = (unsigned)j.num("malloc_fail_at");
	s.short_read = (int)j.num("short_read");
	s.clock_jump_at = (unsigned)j.num("clock_jump_at"); s.clock_jump_ns = j.num("clock_jump_ns");
	s.trace_stat = j.at("trace_stat").b;
	s.no_hash_opt = j.at("no_hash_opt").b;
	s.stream_size = (unsigned)j.num("stream_size");
	for (auto& f : j.at("faults").a) s.faults.push_back(Fault::from_json(f));
	return s;
}

// ------------------------------------------------------------------ Sandbox

Sandbox::Sandbox(const std::string& root_, const Config& c, uint64_t seed) : root(root_), cfg(c), run_seed(seed) {}

Sandbox::~Sandbox() {}

const DiskCfg* Sandbox::disk(const std::string& name) const
{
	for (auto& d : cfg.disks) if (d.name == name) return &d;
	return nullptr;
}

std::vector<std::string> Sandbox::data_tops() const
{
	std::vector<std::string> v;
	for (auto& d : cfg.disks) v.push_back(d.top);
	return v;
}

std::vector<std::string> Sandbox::parity_tops() const
{
	std::vector<std::string> v;
	for (int l = 0; l < cfg.np; ++l)
		for (int s = 0; s < cfg.splits[l]; ++s) v.push_back(cfg.parity_top(l, s));
	return v;
}

static std::string top_of(const std::string& rel)
{
	size_t p = rel.find('/');
	return p == std::string::npos ? rel : rel.substr(0, p);
}

std::vector<std::string> Sandbox::all_tops() const
{
	std::set<std::string> s;
	for (auto& t : data_tops()) s.insert(t);
	for (auto& t : parity_tops()) s.insert(t);
	for (auto& c : cfg.content) s.insert(top_of(c));
	if (cfg.pool) s.insert("pool");
	s.insert("imp");
	for (auto& t : cfg.extra_tops) s.insert(t);
	return std::vector<std::string>(s.begin(), s.end());
}

void Sandbox::register_devices()
{
	sim_shared_reset_run(root.c_str());
	uint64_t k = 0;
	for (auto& t : all_tops()) {
		std::string uuid;
		for (auto& d : cfg.disks) if (d.top == t) uuid = d.uuid;
		if (t[0] == 'p' && t != "pool") uuid = ""; // parity devices: no uuid (keeps content deterministic and simple)
		// sizes are constants of the run: they are written into the content file
		int idx = sim_dev_add(t.c_str(), uuid.c_str(), (uint64_t)(64 + k) << 20, (uint64_t)(32 + k) << 20);
		auto bit = cfg.budgets.find(t);
		if (idx >= 0 && bit != cfg.budgets.end()) sim_sh->dev[idx].budget_bytes = bit->second;
		++k;
	}
}

void Sandbox::register_devices_keep_vinos()
{
	for (int i = 0; i < sim_sh->ndev; ++i) {
		auto bit = cfg.budgets.find(sim_sh->dev[i].top);
		sim_sh->dev[i].budget_bytes = bit != cfg.budgets.end() ? bit->second : -1;
	}
}

void Sandbox::write_conf()
{
	std::string t;
	t += strf("blocksize %d\n", cfg.block_kib);
	if (cfg.hash_size != 16) t += strf("hashsize %d\n", cfg.hash_size);
	for (int l = 0; l < cfg.np; ++l) {
		t += Config::level_name(l, cfg.zmode);
		t += " ";
		for (int s = 0; s < cfg.splits[l]; ++s) {
			if (s) t += ",";
			t += abs(cfg.parity_rel(l, s));
		}
		t += "\n";
	}
	for (auto& c : cfg.content) t += "content " + abs(c) + "\n";
	for (auto& d : cfg.disks)
		if (d.in_config) t += "data " + d.name + " " + abs(d.top) + "/\n";
	if (cfg.nohidden) t += "nohidden\n";
	for (auto& f : cfg.filters) t += f + "\n";
	if (cfg.pool) t += "pool " + abs("pool") + "\n";
	if (!cfg.share.empty()) t += "share " + cfg.share + "\n";
	write_file(abs("conf"), t);
}

void Sandbox::setup()
{
	mkdir(root.c_str(), 0755);
	for (auto& t : all_tops()) mkdir(abs(t).c_str(), 0755);
	mkdir(abs("out").c_str(), 0755);
	register_devices();
	write_conf();
}

void Sandbox::next_stamp(int64_t& s, int64_t& ns, bool zero_nsec)
{
	++wcount;
	if (zero_nsec) {
		// unique second instead of unique nanosecond
		s = now_s - 100000 + (int64_t)wcount;
		ns = 0;
	} else {
		s = now_s;
		ns = (int64_t)((wcount * 1000) % 999000000) + 1;
	}
}

void Sandbox::mkdirs_for(const std::string& rel)
{
	size_t p = 0;
	while ((p = rel.find('/', p + 1)) != std::string::npos) {
		std::string d = abs(rel.substr(0, p));
		if (mkdir(d.c_str(), 0755) == 0) {
			// directories get their virtual inode at creation: the scan sorts entries by inode
			struct stat st;
			if (lstat(d.c_str(), &st) == 0) sim_vino_get(st.st_ino);
		}
	}
}

static std::string disk_name_of_top(const Config& cfg, const std::string& top)
{
	for (auto& d : cfg.disks) if (d.top == top) return d.name;
	return "";
}

static void split_rel(const std::string& rel, std::string& top, std::string& sub)
{
	size_t p = rel.find('/');
	if (p == std::string::npos) { top = rel; sub = ""; } else { top = rel.substr(0, p); sub = rel.substr(p + 1); }
}

bool Sandbox::put_file(const std::string& rel, const Bytes& data, int64_t s, int64_t ns, bool new_inode, uint64_t force_vino)
{
	std::string p = abs(rel);
	mkdirs_for(rel);
	struct stat st;
	bool existed = lstat(p.c_str(), &st) == 0;
	if (existed && (new_inode || !S_ISREG(st.st_mode))) {
		rm_rf(p);
		existed = false;
	}
	int fd = open(p.c_str(), O_WRONLY | O_CREAT | O_TRUNC, 0644);
	if (fd < 0) return false;
	size_t off = 0;
	while (off < data.size()) {
		ssize_t r = write(fd, data.data() + off, data.size() - off);
		if (r <= 0) { close(fd); return false; }
		off += (size_t)r;
	}
	struct timespec ts[2] = { { (time_t)s, (long)ns }, { (time_t)s, (long)ns } };
	futimens(fd, ts);
	fstat(fd, &st);
	close(fd);
	if (!existed) {
		if (force_vino) sim_vino_set(st.st_ino, force_vino);
		else sim_vino_get(st.st_ino);
	}
	std::string top, sub;
	split_rel(rel, top, sub);
	std::string dn = disk_name_of_top(cfg, top);
	if (!dn.empty()) versions.put(dn, sub, data, s, ns);
	return true;
}

bool Sandbox::set_mtime(const std::string& rel, int64_t s, int64_t ns)
{
	struct timespec ts[2] = { { (time_t)s, (long)ns }, { (time_t)s, (long)ns } };
	if (utimensat(AT_FDCWD, abs(rel).c_str(), ts, AT_SYMLINK_NOFOLLOW) != 0) return false;
	Bytes b;
	std::string top, sub;
	split_rel(rel, top, sub);
	std::string dn = disk_name_of_top(cfg, top);
	struct stat st;
	if (!dn.empty() && lstat(abs(rel).c_str(), &st) == 0 && S_ISREG(st.st_mode) && get_file(rel, b)) versions.put(dn, sub, b, s, ns);
	return true;
}

bool Sandbox::remove_path(const std::string& rel)
{
	if (!exists(rel)) return false;
	rm_rf(abs(rel));
	return true;
}

bool Sandbox::rename_path(const std::string& from, const std::string& to)
{
	mkdirs_for(to);
	struct stat st;
	// the file keeps its identity (inode, size, stamp): every content version known under the old name (e.g. the original of a
	// silently damaged file) is also a version under the new name
	std::vector<std::shared_ptr<Bytes>> carried;
	int64_t cs = 0, cns = 0;
	if (lstat(abs(from).c_str(), &st) == 0 && S_ISREG(st.st_mode)) {
		std::string ftop, fsub;
		split_rel(from, ftop, fsub);
		std::string fdn = disk_name_of_top(cfg, ftop);
		cs = st.st_mtim.tv_sec; cns = st.st_mtim.tv_nsec;
		if (!fdn.empty()) { const auto* v = versions.all(fdn, fsub, (uint64_t)st.st_size, cs, cns); if (v) carried = *v; }
	}
	if (lstat(abs(to).c_str(), &st) == 0) rm_rf(abs(to));
	if (rename(abs(from).c_str(), abs(to).c_str()) != 0) return false;
	{
		std::string ttop, tsub;
		split_rel(to, ttop, tsub);
		std::string tdn = disk_name_of_top(cfg, ttop);
		if (!tdn.empty()) for (auto& b : carried) versions.put(tdn, tsub, *b, cs, cns);
	}
	// register the version under its new name
	if (lstat(abs(to).c_str(), &st) == 0 && S_ISREG(st.st_mode)) {
		Bytes b;
		std::string top, sub;
		split_rel(to, top, sub);
		std::string dn = disk_name_of_top(cfg, top);
		if (!dn.empty() && get_file(to, b)) versions.put(dn, sub, b, st.st_mtim.tv_sec, st.st_mtim.tv_nsec);
	}
	return true;
}

bool Sandbox::make_dir(const std::string& rel)
{
	mkdirs_for(rel + "/x");
	return exists(rel);
}

bool Sandbox::make_symlink(const std::string& rel, const std::string& target)
{
	mkdirs_for(rel);
	struct stat st;
	if (lstat(abs(rel).c_str(), &st) == 0) rm_rf(abs(rel));
	if (symlink(target.c_str(), abs(rel).c_str()) != 0) return false;
	if (lstat(abs(rel).c_str(), &st) == 0) sim_vino_get(st.st_ino);
	return true;
}

bool Sandbox::make_hardlink(const std::string& rel, const std::string& target_rel)
{
	mkdirs_for(rel);
	struct stat st;
	if (lstat(abs(rel).c_str(), &st) == 0) rm_rf(abs(rel));
	if (link(abs(target_rel).c_str(), abs(rel).c_str()) != 0) return false;
	if (lstat(abs(rel).c_str(), &st) == 0) {
		Bytes b;
		std::string top, sub;
		split_rel(rel, top, sub);
		std::string dn = disk_name_of_top(cfg, top);
		if (!dn.empty() && get_file(rel, b)) versions.put(dn, sub, b, st.st_mtim.tv_sec, st.st_mtim.tv_nsec);
		// another name of the same inode: every content the harness has seen under the old name with this size and stamp
		// (silent damage keeps both) is a possible content under the new one - the scan may take the new name for a move
		std::string ttop, tsub;
		split_rel(target_rel, ttop, tsub);
		std::string tdn = disk_name_of_top(cfg, ttop);
		if (!dn.empty() && !tdn.empty()) {
			const auto* v = versions.all(tdn, tsub, (uint64_t)st.st_size, st.st_mtim.tv_sec, st.st_mtim.tv_nsec);
			if (v) { auto copy = *v; for (auto& e : copy) versions.put(dn, sub, *e, st.st_mtim.tv_sec, st.st_mtim.tv_nsec); }
		}
	}
	return true;
}

bool Sandbox::corrupt_bytes(const std::string& rel, uint64_t off, const Bytes& nb)
{
	struct stat st;
	std::string p = abs(rel);
	if (lstat(p.c_str(), &st) != 0 || !S_ISREG(st.st_mode)) return false;
	int fd = open(p.c_str(), O_WRONLY);
	if (fd < 0) return false;
	ssize_t r = pwrite(fd, nb.data(), nb.size(), (off_t)off);
	struct timespec ts[2] = { st.st_atim, st.st_mtim };
	futimens(fd, ts);
	close(fd);
	return r == (ssize_t)nb.size();
}

bool Sandbox::exists(const std::string& rel) const
{
	struct stat st;
	return lstat(abs(rel).c_str(), &st) == 0;
}

bool Sandbox::get_file(const std::string& rel, Bytes& out) const
{
	return read_file(abs(rel), out);
}

bool Sandbox::stat_file(const std::string& rel, uint64_t& size, int64_t& s, int64_t& ns) const
{
	struct stat st;
	if (lstat(abs(rel).c_str(), &st) != 0) return false;
	size = (uint64_t)st.st_size;
	s = st.st_mtim.tv_sec;
	ns = st.st_mtim.tv_nsec;
	return true;
}

static void walk(const std::string& absdir, const std::string& rel, Snap& out)
{
	DIR* d = opendir(absdir.c_str());
	if (!d) return;
	std::vector<std::string> names;
	while (struct dirent* e = readdir(d)) {
		if (!strcmp(e->d_name, ".") || !strcmp(e->d_name, "..")) continue;
		names.push_back(e->d_name);
	}
	closedir(d);
	for (auto& n : names) {
		std::string a = absdir + "/" + n;
		std::string r = rel + "/" + n;
		struct stat st;
		if (lstat(a.c_str(), &st) != 0) continue;
		SnapNode node;
		node.mtime_s = st.st_mtim.tv_sec;
		node.mtime_ns = st.st_mtim.tv_nsec;
		node.mode = st.st_mode & 07777;
		node.vino = sim_vino_get(st.st_ino);
		if (S_ISDIR(st.st_mode)) {
			node.type = 'd';
			out[r] = node;
			walk(a, r, out);
		} else if (S_ISLNK(st.st_mode)) {
			char buf[4096];
			ssize_t k = readlink(a.c_str(), buf, sizeof(buf));
			node.type = 'l';
			node.data.assign(buf, k > 0 ? (size_t)k : 0);
			out[r] = node;
		} else if (S_ISREG(st.st_mode)) {
			node.type = 'f';
			read_file(a, node.data);
			node.vino = sim_vino_get(st.st_ino);
			out[r] = node;
		}
	}
}

Snap Sandbox::snapshot(const std::vector<std::string>& tops) const
{
	Snap s;
	for (auto& t : tops) walk(abs(t), t, s);
	return s;
}

Snap Sandbox::snapshot_all() const
{
	return snapshot(all_tops());
}

void Sandbox::restore(const Snap& s, const std::vector<std::string>& tops)
{
	for (auto& t : tops) {
		rm_rf(abs(t));
		mkdir(abs(t).c_str(), 0755);
	}
	std::set<std::string> topset(tops.begin(), tops.end());
	std::map<uint64_t, std::string> first_of_vino;
	for (auto& kv : s) {
		const std::string& rel = kv.first;
		const SnapNode& n = kv.second;
		if (!topset.count(top_of(rel))) continue;
		std::string a = abs(rel);
		if (n.type == 'd') {
			mkdir(a.c_str(), 0755);
			struct stat st;
			if (n.vino && lstat(a.c_str(), &st) == 0) sim_vino_set(st.st_ino, n.vino);
		} else if (n.type == 'l') {
			if (symlink(n.data.c_str(), a.c_str()) != 0) {
			}
			struct stat st;
			if (n.vino && lstat(a.c_str(), &st) == 0) sim_vino_set(st.st_ino, n.vino);
		} else {
			auto it = first_of_vino.find(n.vino);
			if (it != first_of_vino.end()) {
				if (link(abs(it->second).c_str(), a.c_str()) != 0) {
				}
				continue;
			}
			write_file(a, n.data);
			chmod(a.c_str(), n.mode ? n.mode : 0644);
			struct stat st;
			if (lstat(a.c_str(), &st) == 0) sim_vino_set(st.st_ino, n.vino);
			first_of_vino[n.vino] = rel;
		}
	}
	// time stamps last (files only; links via lutimes)
	for (auto& kv : s) {
		if (!topset.count(top_of(kv.first))) continue;
		if (kv.second.type == 'd') continue;
		struct timespec ts[2] = { { (time_t)kv.second.mtime_s, (long)kv.second.mtime_ns }, { (time_t)kv.second.mtime_s, (long)kv.second.mtime_ns } };
		utimensat(AT_FDCWD, abs(kv.first).c_str(), ts, AT_SYMLINK_NOFOLLOW);
	}
}

void Sandbox::restore_all(const Snap& s)
{
	restore(s, all_tops());
}

void Sandbox::observe_versions()
{
	for (auto& d : cfg.disks) {
		Snap s;
		walk(abs(d.top), d.top, s);
		for (auto& kv : s) {
			if (kv.second.type != 'f') continue;
			std::string top, sub;
			split_rel(kv.first, top, sub);
			versions.put(d.name, sub, kv.second.data, kv.second.mtime_s, kv.second.mtime_ns);
			// a file the tool itself renamed to <name>.unrecoverable keeps inode and stamp: what the harness knew under
			// the old name (e.g. the pristine version of a silently damaged file) is possible content of the new name too
			if (ends_with(sub, ".unrecoverable")) {
				const auto* v = versions.all(d.name, sub.substr(0, sub.size() - 14), kv.second.data.size(), kv.second.mtime_s, kv.second.mtime_ns);
				if (v) { auto copy = *v; for (auto& e : copy) versions.put(d.name, sub, *e, kv.second.mtime_s, kv.second.mtime_ns); }
			}
		}
	}
}

std::string snap_diff(const Snap& a, const Snap& b, bool compare_mtime, size_t max_items)
{
	std::string out;
	size_t n = 0;
	auto add = [&](const std::string& s) { if (n++ < max_items) out += s + "; "; };
	for (auto& kv : a) {
		auto it = b.find(kv.first);
		if (it == b.end()) { add("missing " + kv.first); continue; }
		const SnapNode& x = kv.second;
		const SnapNode& y = it->second;
		if (x.type != y.type) { add("type " + kv.first); continue; }
		if (x.type != 'd' && x.data != y.data) { add(strf("content %s (%zu vs %zu bytes)", kv.first.c_str(), x.data.size(), y.data.size())); continue; }
		if (compare_mtime && x.type == 'f' && (x.mtime_s != y.mtime_s || x.mtime_ns != y.mtime_ns))
			add(strf("mtime %s (%lld.%09lld vs %lld.%09lld)", kv.first.c_str(), (long long)x.mtime_s, (long long)x.mtime_ns, (long long)y.mtime_s, (long long)y.mtime_ns));
	}
	for (auto& kv : b)
		if (!a.count(kv.first)) add("extra " + kv.first);
	if (n > max_items) out += strf("(+%zu more)", n - max_items);
	return out;
}

// ------------------------------------------------------------------ commands

std::vector<std::string> Sandbox::base_args(const CmdSpec& spec, const std::string& tag) const
{
	std::vector<std::string> a;
	a.push_back("snapraid");
	a.push_back("-c");
	a.push_back(abs("conf"));
	a.push_back("--test-skip-self");
	a.push_back("-l");
	a.push_back(abs("out/" + tag + ".log"));
	if (!spec.no_hash_opt) a.push_back(cfg.hash == 'u' ? "--test-force-murmur3" : "--test-force-spooky2");
	switch (cfg.scan_order) {
	case 1: a.push_back("--test-force-order-inode"); break;
	case 2: a.push_back("--test-force-order-alpha"); break;
	case 3: a.push_back("--test-force-order-dir"); break;
	}
	if (cfg.parity_limit > 0) { a.push_back("--test-parity-limit"); a.push_back(strf("%lld", (long long)cfg.parity_limit)); }
	if (cfg.skip_fallocate) a.push_back("--test-skip-fallocate");
	if (cfg.autosave_at > 0 && spec.cmd == "sync") { a.push_back("--test-force-autosave-at"); a.push_back(strf("%d", cfg.autosave_at)); }
	for (auto& o : spec.opts) a.push_back(o == "@IMP@" ? abs("imp") : o);
	a.push_back(spec.cmd);
	return a;
}

static void fill_plan(sim_cmd* c, const Sandbox& sb, const CmdSpec& spec)
{
	memset(c, 0, sizeof(*c));
	c->run_seed = sb.run_seed;
	c->cmd_index = sb.cmd_index;
	c->sched_seed = spec.sched_seed;
	c->sched_policy = spec.policy;
	c->sched_param = spec.policy_param;
	c->spurious_per_1024 = spec.spurious;
	c->lock_yield_per_1024 = spec.lock_yield;
	c->max_steps = 4000000;
	c->clock_ns = sb.now_s * 1000000000LL;
	c->clock_frozen = 1;
	c->kill_at = spec.kill_at;
	c->kill_mode = spec.kill_mode;
	c->park_at = spec.park_at;
	c->sig_at_io = spec.sig_at_io;
	c->sig_no = spec.sig_no;
	c->malloc_fail_at = spec.malloc_fail_at;
	c->short_read_per_1024 = spec.short_read;
	c->clock_jump_at = spec.clock_jump_at;
	c->clock_jump_ns = spec.clock_jump_ns;
	c->fiemap_mode = sb.cfg.fiemap_mode;
	c->trace_stat = spec.trace_stat;
	c->nfaults = (int)std::min<size_t>(spec.faults.size(), SIM_FAULT_CAP);
	for (int i = 0; i < c->nfaults; ++i) c->faults[i] = spec.faults[i].f;
}

static pid_t spawn(Sandbox& sb, const CmdSpec& spec, int slot, const std::string& tag, std::string& argv_line)
{
	std::vector<std::string> args = sb.base_args(spec, tag);
	argv_line.clear();
	for (auto& a : args) { argv_line += a; argv_line += ' '; }
	fill_plan(&sim_sh->cmd[slot], sb, spec);
	fflush(stdout);
	fflush(stderr);
	pid_t pid = fork();
	if (pid != 0) return pid;
	// ---- child
	alarm(180);
	setenv("TZ", "UTC", 1);
	setenv("LC_ALL", "C", 1);
	int fo = open(sb.abs("out/" + tag + ".out").c_str(), O_WRONLY | O_CREAT | O_TRUNC, 0644);
	int fe = open(sb.abs("out/" + tag + ".err").c_str(), O_WRONLY | O_CREAT | O_TRUNC, 0644);
	int fi = open("/dev/null", O_RDONLY);
	dup2(fi, 0); dup2(fo, 1); dup2(fe, 2);
	close(fi); close(fo); close(fe);
	std::vector<char*> argv;
	for (auto& a : args) argv.push_back(strdup(a.c_str()));
	argv.push_back(nullptr);
	if (spec.stream_size) STREAM_SIZE = spec.stream_size;
	sim_child_begin(slot);
	int rc = snapraid_main((int)args.size(), argv.data());
	sim_child_exit(rc);
	_exit(99);
}

static void collect(Sandbox& sb, int slot, const std::string& tag, int status, CmdResult& r)
{
	if (WIFEXITED(status)) { r.exit_code = WEXITSTATUS(status); r.term_sig = 0; }
	else if (WIFSIGNALED(status)) { r.exit_code = -1; r.term_sig = WTERMSIG(status); }
	r.info = sim_sh->cmd[slot];
	r.sim_killed = r.info.killed != 0;
	if (r.term_sig == SIGALRM) r.harness_error = true;
	read_file(sb.abs("out/" + tag + ".out"), r.out);
	read_file(sb.abs("out/" + tag + ".err"), r.err);
	read_file(sb.abs("out/" + tag + ".log"), r.log);
	// os_abort() prints a backtrace whose outer frames belong to the harness: not part of the behaviour
	for (std::string* t : { &r.err, &r.log, &r.out }) {
		if (t->find("[bt]") == std::string::npos) continue;
		std::string kept;
		for (auto& line : split(*t, '\n'))
			if (line.find("[bt]") == std::string::npos) { kept += line; kept += '\n'; }
		*t = kept;
	}
	// the sandbox root is the only run-to-run varying string: normalise it
	for (std::string* t : { &r.out, &r.err, &r.log }) {
		size_t p = 0;
		while ((p = t->find(sb.root, p)) != std::string::npos) t->replace(p, sb.root.size(), "$R");
	}
	uint32_t n = r.info.nev;
	if (n > SIM_TRACE_CAP) { r.trace_overflow = true; n = SIM_TRACE_CAP; }
	r.trace.assign(sim_sh->trace[slot], sim_sh->trace[slot] + n);
	r.paths.resize(sim_sh->npath);
	for (uint32_t i = 0; i < sim_sh->npath; ++i) r.paths[i] = sim_path_str(i);
	for (int i = 0; i < r.info.nfaults; ++i) {
		if (r.info.faults[i].fired) {
			static const char* names[] = { "none", "io_error", "concurrent_change", "signal", "short_read", "corrupt_write" };
			sb.fault_fired[names[r.info.faults[i].kind]] += r.info.faults[i].fired;
		}
	}
	if (r.info.killed) sb.fault_fired[r.info.kill_mode == 2 ? "kill_torn" : r.info.kill_mode == 1 ? "kill_after" : "kill_before"]++;
	if (r.info.signals_raised) sb.fault_fired["graceful_stop"] += r.info.signals_raised;
	if (r.info.short_reads) sb.fault_fired["short_read"] += r.info.short_reads;
	if (r.info.spurious) sb.fault_fired["spurious_wakeup"] += r.info.spurious;
	++sb.commands_run;
}

CmdResult Sandbox::run(const CmdSpec& spec, int slot)
{
	CmdResult r;
	std::string tag = strf("c%u", cmd_index);
	observe_versions();
	pid_t pid = spawn(*this, spec, slot, tag, r.argv_line);
	if (pid < 0) { r.harness_error = true; return r; }
	int status = 0;
	while (waitpid(pid, &status, 0) < 0 && errno == EINTR) {}
	collect(*this, slot, tag, status, r);
	++cmd_index;
	return r;
}

void Sandbox::run_pair(const CmdSpec& a, const CmdSpec& b, CmdResult& ra, CmdResult& rb, bool& b_ran_while_parked)
{
	std::string taga = strf("c%u", cmd_index);
	observe_versions();
	b_ran_while_parked = false;
	pid_t pa = spawn(*this, a, 0, taga, ra.argv_line);
	int status = 0;
	bool a_done = false;
	// wait until A parks or ends
	for (;;) {
		if (sim_sh->cmd[0].parked) break;
		pid_t w = waitpid(pa, &status, WNOHANG);
		if (w == pa) { a_done = true; break; }
		struct timespec ts = { 0, 50000 };
		nanosleep(&ts, 0);
	}
	++cmd_index;
	if (!a_done) b_ran_while_parked = true;
	{
		std::string tagb = strf("c%u", cmd_index);
		pid_t pb = spawn(*this, b, 1, tagb, rb.argv_line);
		int sb_ = 0;
		while (waitpid(pb, &sb_, 0) < 0 && errno == EINTR) {}
		collect(*this, 1, tagb, sb_, rb);
		++cmd_index;
	}
	if (!a_done) {
		sim_sh->cmd[0].resume = 1;
		while (waitpid(pa, &status, 0) < 0 && errno == EINTR) {}
	}
	collect(*this, 0, taga, status, ra);
}
