/* fallback when iotramp.c does not compile against /repo's io.h: no hand-over events */
void __real_io_init(void* io, void* state, unsigned io_cache, unsigned buffer_max, void* dr, void* hm, unsigned hmax, void* pr, void* pw, void* phm, unsigned phmax);
void __wrap_io_init(void* io, void* state, unsigned io_cache, unsigned buffer_max, void* dr, void* hm, unsigned hmax, void* pr, void* pw, void* phm, unsigned phmax)
{
	__real_io_init(io, state, io_cache, buffer_max, dr, hm, hmax, pr, pw, phm, phmax);
}
int sim_tramp_is_stub = 1;
