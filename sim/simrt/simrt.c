/*
 * simrt.c - file layer, clock, fault injection, trace and thread scheduler.
 * See simrt.h and DESIGN.md section 3.
 */
#define _GNU_SOURCE
#include <stdio.h>
#include <stdlib.h>
#include <string.h>
#include <stdarg.h>
#include <errno.h>
#include <fcntl.h>
#include <unistd.h>
#include <dirent.h>
#include <signal.h>
#include <time.h>
#include <pthread.h>
#include <semaphore.h>
#include <sys/types.h>
#include <sys/stat.h>
#include <sys/mman.h>
#include <sys/statfs.h>
#include <sys/time.h>
#include <sys/file.h>
#include <sys/ioctl.h>
#include <sys/sysmacros.h>
#include <linux/fs.h>
#include <linux/fiemap.h>

#include "simrt.h"

struct sim_shared* sim_sh = 0;
int sim_active = 0;
int sim_slot = 0;

#define C (&sim_sh->cmd[sim_slot])

/* ------------------------------------------------------------------------ */
/* real functions */

int __real_open(const char* path, int flags, ...);
int __real_close(int fd);
ssize_t __real_read(int fd, void* buf, size_t n);
ssize_t __real_write(int fd, const void* buf, size_t n);
ssize_t __real_pread(int fd, void* buf, size_t n, off_t off);
ssize_t __real_pwrite(int fd, const void* buf, size_t n, off_t off);
int __real_fsync(int fd);
int __real_ftruncate(int fd, off_t len);
int __real_fallocate(int fd, int mode, off_t off, off_t len);
int __real_rename(const char* a, const char* b);
int __real_remove(const char* p);
int __real_rmdir(const char* p);
int __real_mkdir(const char* p, mode_t m);
int __real_link(const char* a, const char* b);
int __real_symlink(const char* a, const char* b);
ssize_t __real_readlink(const char* p, char* buf, size_t n);
int __real_stat(const char* p, struct stat* st);
int __real_lstat(const char* p, struct stat* st);
int __real_fstat(int fd, struct stat* st);
int __real_fstatat(int dfd, const char* p, struct stat* st, int flags);
DIR* __real_opendir(const char* p);
struct dirent* __real_readdir(DIR* d);
int __real_closedir(DIR* d);
int __real_dirfd(DIR* d);
int __real_utimensat(int dfd, const char* p, const struct timespec ts[2], int flags);
int __real_futimens(int fd, const struct timespec ts[2]);
int __real_flock(int fd, int op);
int __real_statfs(const char* p, struct statfs* st);
int __real_access(const char* p, int mode);
int __real_ioctl(int fd, unsigned long req, ...);
int __real_posix_fadvise(int fd, off_t off, off_t len, int adv);
int __real_sync_file_range(int fd, off64_t off, off64_t n, unsigned flags);
time_t __real_time(time_t* t);
int __real_gettimeofday(struct timeval* tv, void* tz);
int __real_clock_gettime(clockid_t id, struct timespec* ts);
unsigned __real_sleep(unsigned s);
int __real_usleep(useconds_t us);
int __real_system(const char* cmd);
FILE* __real_popen(const char* cmd, const char* mode);
int __real_pclose(FILE* f);
FILE* __real_fopen(const char* p, const char* mode);
void __real_exit(int code) __attribute__((noreturn));
void __real_abort(void) __attribute__((noreturn));
void* __real_malloc(size_t n);
int __real_pthread_create(pthread_t* t, const pthread_attr_t* a, void* (*fn)(void*), void* arg);
int __real_pthread_join(pthread_t t, void** ret);
int __real_pthread_mutex_init(pthread_mutex_t* m, const pthread_mutexattr_t* a);
int __real_pthread_mutex_destroy(pthread_mutex_t* m);
int __real_pthread_mutex_lock(pthread_mutex_t* m);
int __real_pthread_mutex_unlock(pthread_mutex_t* m);
int __real_pthread_cond_init(pthread_cond_t* c, const pthread_condattr_t* a);
int __real_pthread_cond_destroy(pthread_cond_t* c);
int __real_pthread_cond_signal(pthread_cond_t* c);
int __real_pthread_cond_broadcast(pthread_cond_t* c);
int __real_pthread_cond_wait(pthread_cond_t* c, pthread_mutex_t* m);

/* ------------------------------------------------------------------------ */
/* hashing */

uint64_t sim_mix(uint64_t a, uint64_t b)
{
	uint64_t x = a ^ (b + 0x9e3779b97f4a7c15ULL + (a << 6) + (a >> 2));
	x ^= x >> 30; x *= 0xbf58476d1ce4e5b9ULL;
	x ^= x >> 27; x *= 0x94d049bb133111ebULL;
	x ^= x >> 31;
	return x;
}

static uint64_t hash_str(uint64_t h, const char* s)
{
	while (*s)
		h = sim_mix(h, (unsigned char)*s++);
	return h;
}

/* byte i of the stream of 'seed' is byte (i&7) of sim_mix(seed, i>>3) */
void sim_fill(uint64_t seed, void* dst, size_t n, uint64_t start)
{
	unsigned char* p = dst;
	size_t i;
	uint64_t w = 0;
	uint64_t cur = ~0ULL;
	for (i = 0; i < n; ++i) {
		uint64_t pos = start + i;
		if ((pos >> 3) != cur) {
			cur = pos >> 3;
			w = sim_mix(seed, cur);
		}
		p[i] = (unsigned char)(w >> ((pos & 7) * 8));
	}
}

/* ------------------------------------------------------------------------ */
/* shared state */

struct sim_shared* sim_shared_create(void)
{
	void* p = mmap(0, sizeof(struct sim_shared), PROT_READ | PROT_WRITE, MAP_SHARED | MAP_ANONYMOUS, -1, 0);
	if (p == MAP_FAILED)
		return 0;
	sim_sh = p;
	return sim_sh;
}

void sim_shared_reset_run(const char* root)
{
	struct sim_shared* s = sim_sh;
	snprintf(s->root, sizeof(s->root), "%s", root);
	s->root_len = strlen(s->root);
	s->ndev = 0;
	s->vlock = 0;
	s->next_vino = 1000;
	memset(s->vino, 0, sizeof(s->vino));
	s->npath = 1; /* id 0 = none */
	s->path_off[0] = 0;
	s->arena[0] = 0;
	s->arena_used = 1;
}

int sim_dev_add(const char* top, const char* uuid, uint64_t total, uint64_t free_)
{
	struct sim_dev* d;
	if (sim_sh->ndev >= SIM_DEV_CAP)
		return -1;
	d = &sim_sh->dev[sim_sh->ndev];
	memset(d, 0, sizeof(*d));
	snprintf(d->top, sizeof(d->top), "%s", top);
	snprintf(d->uuid, sizeof(d->uuid), "%s", uuid ? uuid : "");
	d->total_bytes = total;
	d->free_bytes = free_;
	d->budget_bytes = -1;
	d->fstype = 0xEF53;
	return sim_sh->ndev++;
}

/* sandbox-relative part of a path, or 0 if outside */
static const char* relpath(const char* path)
{
	struct sim_shared* s = sim_sh;
	if (!s || !path || s->root_len == 0)
		return 0;
	if (strncmp(path, s->root, s->root_len) != 0)
		return 0;
	if (path[s->root_len] == 0)
		return "";
	if (path[s->root_len] != '/')
		return 0;
	path += s->root_len;
	while (*path == '/')
		++path;
	return path;
}

static int dev_index_rel(const char* rel)
{
	int i;
	size_t n;
	if (!rel || !*rel)
		return -1;
	n = strcspn(rel, "/");
	for (i = 0; i < sim_sh->ndev; ++i) {
		const char* t = sim_sh->dev[i].top;
		if (strlen(t) == n && memcmp(t, rel, n) == 0)
			return i;
	}
	return -1;
}

struct sim_dev* sim_dev_of_path(const char* path)
{
	int i = dev_index_rel(relpath(path));
	return i < 0 ? 0 : &sim_sh->dev[i];
}

static dev_t dev_number(int idx)
{
	return makedev(8, (idx + 1) * 16);
}

static int dev_from_number(uint64_t devno)
{
	int idx;
	if (major(devno) != 8)
		return -1;
	idx = minor(devno) / 16 - 1;
	if (idx < 0 || idx >= sim_sh->ndev || minor(devno) % 16 != 0)
		return -1;
	return idx;
}

/* --- vino table --- */

static void vlock(void)
{
	while (__sync_lock_test_and_set(&sim_sh->vlock, 1))
		;
}

static void vunlock(void)
{
	__sync_lock_release(&sim_sh->vlock);
}

static struct sim_vino* vino_slot(uint64_t real, int for_insert)
{
	uint64_t h = sim_mix(real, 77) & (SIM_VINO_CAP - 1);
	struct sim_vino* tomb = 0;
	unsigned n;
	for (n = 0; n < SIM_VINO_CAP; ++n) {
		struct sim_vino* e = &sim_sh->vino[(h + n) & (SIM_VINO_CAP - 1)];
		if (e->real == real + 2)
			return e;
		if (e->real == 0)
			return for_insert ? (tomb ? tomb : e) : 0;
		if (e->real == 1 && !tomb)
			tomb = e;
	}
	return for_insert ? tomb : 0;
}

uint64_t sim_vino_peek(uint64_t real)
{
	struct sim_vino* e;
	uint64_t v = 0;
	vlock();
	e = vino_slot(real, 0);
	if (e)
		v = e->vino;
	vunlock();
	return v;
}

uint64_t sim_vino_get(uint64_t real)
{
	struct sim_vino* e;
	uint64_t v;
	vlock();
	e = vino_slot(real, 1);
	if (!e) {
		vunlock();
		return real; /* table full: degrade */
	}
	if (e->real != real + 2) {
		e->real = real + 2;
		e->vino = sim_sh->next_vino++;
	}
	v = e->vino;
	vunlock();
	return v;
}

void sim_vino_set(uint64_t real, uint64_t vino)
{
	struct sim_vino* e;
	vlock();
	e = vino_slot(real, 1);
	if (e) {
		e->real = real + 2;
		e->vino = vino;
	}
	vunlock();
}

void sim_vino_del(uint64_t real)
{
	struct sim_vino* e;
	vlock();
	e = vino_slot(real, 0);
	if (e)
		e->real = 1;
	vunlock();
}

uint64_t sim_vino_fresh(void)
{
	uint64_t v;
	vlock();
	v = sim_sh->next_vino++;
	vunlock();
	return v;
}

/* --- path interning --- */

uint32_t sim_path_intern(const char* p)
{
	struct sim_shared* s = sim_sh;
	const char* r;
	uint32_t i;
	size_t n;
	if (!p)
		return 0;
	r = relpath(p);
	if (!r)
		r = p;
	vlock();
	for (i = 1; i < s->npath; ++i) {
		if (strcmp(s->arena + s->path_off[i], r) == 0) {
			vunlock();
			return i;
		}
	}
	n = strlen(r) + 1;
	if (s->npath >= SIM_PATH_CAP || s->arena_used + n > SIM_ARENA_CAP) {
		vunlock();
		return 0;
	}
	i = s->npath++;
	s->path_off[i] = s->arena_used;
	memcpy(s->arena + s->arena_used, r, n);
	s->arena_used += n;
	vunlock();
	return i;
}

const char* sim_path_str(uint32_t id)
{
	if (!sim_sh || id >= sim_sh->npath)
		return "";
	return sim_sh->arena + sim_sh->path_off[id];
}

/* ------------------------------------------------------------------------ */
/* trace */

static __thread int cur_tid = 0;

static struct sim_ev* ev_add(int kind, int flags, uint32_t path, int64_t off, int64_t len, int64_t res, uint64_t aux)
{
	struct sim_cmd* c = C;
	struct sim_ev* e;
	uint32_t n = c->nev++;
	e = &sim_sh->trace[sim_slot][n & (SIM_TRACE_CAP - 1)];
	e->seq = ++c->seq;
	e->tid = cur_tid;
	e->kind = kind;
	e->flags = flags;
	e->path = path;
	e->mut = c->mut_count;
	e->off = off;
	e->len = len;
	e->res = res;
	e->aux = aux;
	return e;
}

static int64_t res_of(int64_t r)
{
	return r < 0 ? -(int64_t)errno : r;
}

void sim_tramp_event(int kind, int64_t a, int64_t b, int64_t c, uint64_t aux)
{
	if (!sim_active)
		return;
	ev_add(kind, 0, 0, a, b, c, aux);
}

/* ------------------------------------------------------------------------ */
/* scheduler */

enum { TS_FREE = 0, TS_RUNNABLE, TS_MUTEX, TS_COND, TS_JOIN, TS_SLEEP, TS_DONE };

struct sthread {
	int state;
	sem_t sem;
	pthread_t real;
	void* (*fn)(void*);
	void* arg;
	void* ret;
	void* obj;        /* mutex / cond / joined thread */
	int64_t wake_ns;
	int spurious;
	uint32_t prio;
	int joined;
};

static struct sthread T[SIM_THREAD_CAP];
static int nthreads = 0;   /* ever created, including main */
static int nalive = 0;
static uint64_t rng_state;
static int rr_left = 0;
static uint32_t pct_change[4];

#define MUTEX_CAP 256
struct smutex {
	void* addr;
	int owner; /* -1 free */
	int has_cond;
};
static struct smutex M[MUTEX_CAP];
static int nmutex = 0;

static uint64_t rng_next(void)
{
	rng_state += 0x9e3779b97f4a7c15ULL;
	return sim_mix(rng_state, 0x5851f42d4c957f2dULL);
}

static void sim_internal(const char* msg)
{
	snprintf(C->note, sizeof(C->note), "internal: %s", msg);
	_exit(SIM_EXIT_INTERNAL);
}

static struct smutex* mutex_get(void* addr)
{
	int i;
	for (i = 0; i < nmutex; ++i)
		if (M[i].addr == addr)
			return &M[i];
	if (nmutex >= MUTEX_CAP)
		sim_internal("too many mutexes");
	M[nmutex].addr = addr;
	M[nmutex].owner = -1;
	M[nmutex].has_cond = 0;
	return &M[nmutex++];
}

static void sched_init(void)
{
	struct sim_cmd* c = C;
	int i;
	memset(T, 0, sizeof(T));
	nthreads = 1;
	nalive = 1;
	cur_tid = 0;
	T[0].state = TS_RUNNABLE;
	sem_init(&T[0].sem, 0, 0);
	T[0].real = pthread_self();
	nmutex = 0;
	rng_state = sim_mix(c->sched_seed, 0x1234);
	T[0].prio = (uint32_t)rng_next();
	rr_left = 0;
	for (i = 0; i < 4; ++i)
		pct_change[i] = 1 + rng_next() % 1500;
}

static void describe_deadlock(void)
{
	char* p = C->note;
	size_t left = sizeof(C->note);
	int i;
	int n = snprintf(p, left, "deadlock:");
	p += n; left -= n;
	for (i = 0; i < nthreads && left > 24; ++i) {
		static const char* names[] = { "free", "run", "mutex", "cond", "join", "sleep", "done" };
		n = snprintf(p, left, " t%d=%s", i, names[T[i].state]);
		p += n; left -= n;
	}
}

static void clock_advance_to(int64_t ns);

/* choose the next thread to run among the runnable ones; -1 if none */
static int pick_next(void)
{
	struct sim_cmd* c = C;
	int cand[SIM_THREAD_CAP];
	int n = 0;
	int i;
	int pick;

	/* spurious wake-up of a cond waiter */
	if (c->spurious_per_1024 > 0) {
		int w[SIM_THREAD_CAP];
		int nw = 0;
		for (i = 0; i < nthreads; ++i)
			if (T[i].state == TS_COND)
				w[nw++] = i;
		if (nw > 0 && (int)(rng_next() & 1023) < c->spurious_per_1024) {
			int t = w[rng_next() % nw];
			T[t].state = TS_RUNNABLE;
			T[t].spurious = 1;
			++c->spurious;
		}
	}

again:
	n = 0;
	for (i = 0; i < nthreads; ++i)
		if (T[i].state == TS_RUNNABLE)
			cand[n++] = i;

	if (n == 0) {
		/* discrete-event time: jump to the earliest wake-up */
		int64_t best = -1;
		for (i = 0; i < nthreads; ++i)
			if (T[i].state == TS_SLEEP && (best < 0 || T[i].wake_ns < best))
				best = T[i].wake_ns;
		if (best < 0)
			return -1;
		clock_advance_to(best);
		for (i = 0; i < nthreads; ++i)
			if (T[i].state == TS_SLEEP && T[i].wake_ns <= best)
				T[i].state = TS_RUNNABLE;
		goto again;
	}

	if ((uint32_t)n > c->max_runnable)
		c->max_runnable = n;

	if (n == 1)
		return cand[0];

	++c->decisions;
	if (c->decisions > c->max_steps && c->max_steps) {
		c->step_overflow = 1;
		snprintf(c->note, sizeof(c->note), "step bound %u exceeded", c->max_steps);
		_exit(SIM_EXIT_STEPS);
	}

	switch (c->sched_policy) {
	default :
	case SP_RANDOM :
		pick = cand[rng_next() % n];
		break;
	case SP_PCT : {
		int k;
		for (k = 0; k < 4 && k < c->sched_param; ++k)
			if (pct_change[k] == c->decisions && T[cur_tid].state == TS_RUNNABLE)
				T[cur_tid].prio = k; /* lowest priorities */
		pick = cand[0];
		for (i = 1; i < n; ++i)
			if (T[cand[i]].prio > T[pick].prio)
				pick = cand[i];
		break;
	}
	case SP_RR : {
		int q = c->sched_param > 0 ? c->sched_param : 1;
		if (T[cur_tid].state == TS_RUNNABLE && rr_left > 0) {
			--rr_left;
			pick = cur_tid;
		} else {
			pick = cand[0];
			for (i = 0; i < n; ++i)
				if (cand[i] > cur_tid) {
					pick = cand[i];
					break;
				}
			rr_left = q - 1;
		}
		break;
	}
	case SP_STARVE : {
		/* param < 100: count from the first created thread; param >= 100: from the last created one
		   (the parity writers are created last) */
		int victim = 0;
		if (nthreads > 1) {
			if (c->sched_param >= 100) victim = nthreads - 1 - ((c->sched_param - 100) % (nthreads - 1));
			else victim = 1 + (c->sched_param % (nthreads - 1));
		}
		int m = 0;
		int o[SIM_THREAD_CAP];
		for (i = 0; i < n; ++i)
			if (cand[i] != victim)
				o[m++] = cand[i];
		pick = m ? o[rng_next() % m] : victim;
		break;
	}
	case SP_MAIN_FIRST :
		pick = cand[0] == 0 ? 0 : cand[rng_next() % n];
		break;
	case SP_MAIN_LAST :
		if (cand[0] == 0)
			pick = cand[1 + rng_next() % (n - 1)];
		else
			pick = cand[rng_next() % n];
		break;
	case SP_FIFO :
		pick = T[cur_tid].state == TS_RUNNABLE ? cur_tid : cand[0];
		break;
	}

	c->decision_hash = sim_mix(c->decision_hash, ((uint64_t)pick << 8) | n);
	return pick;
}

static void switch_to(int next)
{
	int self = cur_tid;
	if (next == self)
		return;
	sem_post(&T[next].sem);
	while (sem_wait(&T[self].sem) != 0)
		;
}

static void sim_yield(void)
{
	int next;
	if (!sim_active || nalive <= 1)
		return;
	next = pick_next();
	if (next < 0)
		sim_internal("yield with nothing runnable");
	switch_to(next);
}

/* block the current thread; returns when somebody made it runnable and it was picked */
static void block_current(int state, void* obj)
{
	int next;
	T[cur_tid].state = state;
	T[cur_tid].obj = obj;
	next = pick_next();
	if (next < 0) {
		C->deadlock = 1;
		describe_deadlock();
		_exit(SIM_EXIT_DEADLOCK);
	}
	switch_to(next);
}

static void wake_all(int state, void* obj)
{
	int i;
	for (i = 0; i < nthreads; ++i)
		if (T[i].state == state && T[i].obj == obj)
			T[i].state = TS_RUNNABLE;
}

static int lock_is_yield(struct smutex* m)
{
	if (m->has_cond)
		return 1;
	if (C->lock_yield_per_1024 <= 0)
		return 0;
	return (int)(rng_next() & 1023) < C->lock_yield_per_1024;
}

static void smutex_lock(void* addr)
{
	struct smutex* m = mutex_get(addr);
	if (nalive > 1 && lock_is_yield(m))
		sim_yield();
	while (m->owner != -1) {
		if (m->owner == cur_tid)
			sim_internal("recursive mutex lock");
		block_current(TS_MUTEX, addr);
		m = mutex_get(addr);
	}
	m->owner = cur_tid;
}

static void smutex_unlock(void* addr)
{
	struct smutex* m = mutex_get(addr);
	if (m->owner != cur_tid)
		sim_internal("unlock of a mutex not owned");
	m->owner = -1;
	wake_all(TS_MUTEX, addr);
	if (nalive > 1 && lock_is_yield(m))
		sim_yield();
}

static void* thread_tramp(void* arg)
{
	struct sthread* t = arg;
	int next;
	cur_tid = (int)(t - T);
	while (sem_wait(&t->sem) != 0)
		;
	t->ret = t->fn(t->arg);
	ev_add(EV_THREAD_EXIT, 0, 0, cur_tid, 0, 0, 0);
	t->state = TS_DONE;
	--nalive;
	wake_all(TS_JOIN, t);
	next = pick_next();
	if (next < 0) {
		C->deadlock = 1;
		describe_deadlock();
		_exit(SIM_EXIT_DEADLOCK);
	}
	sem_post(&T[next].sem);
	return t->ret;
}

int __wrap_pthread_create(pthread_t* pt, const pthread_attr_t* a, void* (*fn)(void*), void* arg)
{
	struct sthread* t;
	int r;
	if (!sim_active)
		return __real_pthread_create(pt, a, fn, arg);
	if (nthreads >= SIM_THREAD_CAP)
		sim_internal("too many threads");
	t = &T[nthreads];
	memset(t, 0, sizeof(*t));
	sem_init(&t->sem, 0, 0);
	t->fn = fn;
	t->arg = arg;
	t->state = TS_RUNNABLE;
	t->prio = (uint32_t)rng_next() | 16;
	r = __real_pthread_create(&t->real, a, thread_tramp, t);
	if (r != 0)
		return r;
	*pt = t->real;
	ev_add(EV_THREAD_CREATE, 0, 0, nthreads, 0, 0, 0);
	++nthreads;
	++nalive;
	++C->threads_created;
	sim_yield();
	return 0;
}

int __wrap_pthread_join(pthread_t pt, void** ret)
{
	int i;
	if (!sim_active)
		return __real_pthread_join(pt, ret);
	for (i = 1; i < nthreads; ++i)
		if (!T[i].joined && pthread_equal(T[i].real, pt))
			break;
	if (i == nthreads)
		return ESRCH;
	while (T[i].state != TS_DONE)
		block_current(TS_JOIN, &T[i]);
	T[i].joined = 1;
	return __real_pthread_join(pt, ret);
}

int __wrap_pthread_mutex_init(pthread_mutex_t* m, const pthread_mutexattr_t* a)
{
	if (!sim_active)
		return __real_pthread_mutex_init(m, a);
	mutex_get(m)->owner = -1;
	return 0;
}

int __wrap_pthread_mutex_destroy(pthread_mutex_t* m)
{
	if (!sim_active)
		return __real_pthread_mutex_destroy(m);
	mutex_get(m)->owner = -1;
	return 0;
}

int __wrap_pthread_mutex_lock(pthread_mutex_t* m)
{
	if (!sim_active)
		return __real_pthread_mutex_lock(m);
	smutex_lock(m);
	return 0;
}

int __wrap_pthread_mutex_unlock(pthread_mutex_t* m)
{
	if (!sim_active)
		return __real_pthread_mutex_unlock(m);
	smutex_unlock(m);
	return 0;
}

int __wrap_pthread_cond_init(pthread_cond_t* c, const pthread_condattr_t* a)
{
	if (!sim_active)
		return __real_pthread_cond_init(c, a);
	return 0;
}

int __wrap_pthread_cond_destroy(pthread_cond_t* c)
{
	if (!sim_active)
		return __real_pthread_cond_destroy(c);
	return 0;
}

int __wrap_pthread_cond_signal(pthread_cond_t* c)
{
	int w[SIM_THREAD_CAP];
	int n = 0;
	int i;
	if (!sim_active)
		return __real_pthread_cond_signal(c);
	for (i = 0; i < nthreads; ++i)
		if (T[i].state == TS_COND && T[i].obj == c)
			w[n++] = i;
	if (n > 0) {
		int t = w[n == 1 ? 0 : rng_next() % n];
		T[t].state = TS_RUNNABLE;
	}
	sim_yield();
	return 0;
}

int __wrap_pthread_cond_broadcast(pthread_cond_t* c)
{
	if (!sim_active)
		return __real_pthread_cond_broadcast(c);
	wake_all(TS_COND, c);
	sim_yield();
	return 0;
}

int __wrap_pthread_cond_wait(pthread_cond_t* c, pthread_mutex_t* m)
{
	struct smutex* sm;
	if (!sim_active)
		return __real_pthread_cond_wait(c, m);
	sm = mutex_get(m);
	sm->has_cond = 1;
	if (sm->owner != cur_tid)
		sim_internal("cond_wait without the mutex");
	++C->cond_waits;
	ev_add(EV_COND_WAIT, 0, 0, (int64_t)((char*)c - (char*)m), 0, 0, 0);
	sm->owner = -1;
	wake_all(TS_MUTEX, m);
	T[cur_tid].spurious = 0;
	block_current(TS_COND, c);
	if (T[cur_tid].spurious)
		ev_add(EV_SPURIOUS, 0, 0, 0, 0, 0, 0);
	/* re-acquire */
	sm = mutex_get(m);
	while (sm->owner != -1) {
		block_current(TS_MUTEX, m);
		sm = mutex_get(m);
	}
	sm->owner = cur_tid;
	return 0;
}

/* ------------------------------------------------------------------------ */
/* clock */

static int64_t clock_ns;
static uint64_t mono_calls;

static void clock_advance_to(int64_t ns)
{
	if (ns > clock_ns)
		clock_ns = ns;
	C->clock_end_ns = clock_ns;
}

time_t __wrap_time(time_t* t)
{
	time_t v;
	if (!sim_active)
		return __real_time(t);
	v = clock_ns / 1000000000LL;
	if (t)
		*t = v;
	return v;
}

int __wrap_gettimeofday(struct timeval* tv, void* tz)
{
	if (!sim_active)
		return __real_gettimeofday(tv, tz);
	tv->tv_sec = clock_ns / 1000000000LL;
	tv->tv_usec = (clock_ns % 1000000000LL) / 1000;
	return 0;
}

int __wrap_clock_gettime(clockid_t id, struct timespec* ts)
{
	int64_t v;
	if (!sim_active)
		return __real_clock_gettime(id, ts);
	v = clock_ns;
	if (id != CLOCK_REALTIME)
		v += (int64_t)(++mono_calls) * 1000;
	ts->tv_sec = v / 1000000000LL;
	ts->tv_nsec = v % 1000000000LL;
	return 0;
}

unsigned __wrap_sleep(unsigned s)
{
	if (!sim_active)
		return __real_sleep(s);
	ev_add(EV_SLEEP, 0, 0, (int64_t)s * 1000000000LL, 0, 0, 0);
	if (!C->clock_frozen)
		clock_advance_to(clock_ns + (int64_t)s * 1000000000LL);
	return 0;
}

int __wrap_usleep(useconds_t us)
{
	if (!sim_active)
		return __real_usleep(us);
	ev_add(EV_SLEEP, 0, 0, (int64_t)us * 1000, 0, 0, 0);
	if (nalive <= 1) {
		clock_advance_to(clock_ns + (int64_t)us * 1000);
		return 0;
	}
	T[cur_tid].wake_ns = clock_ns + (int64_t)us * 1000;
	block_current(TS_SLEEP, 0);
	return 0;
}

/* ------------------------------------------------------------------------ */
/* process death, parking, signals, mutation accounting */

static void sim_die(void)
{
	C->killed = 1;
	ev_add(EV_KILL, 0, 0, 0, 0, 0, 0);
	_exit(SIM_EXIT_KILL);
}

void sim_child_exit(int code)
{
	fflush(0);
	if (sim_active)
		C->clock_end_ns = clock_ns;
	_exit(code);
}

void __wrap_exit(int code)
{
	if (!sim_active)
		__real_exit(code);
	sim_child_exit(code);
	for (;;)
		;
}

static void sim_park(void)
{
	struct sim_cmd* c = C;
	ev_add(EV_PARK, 0, 0, 0, 0, 0, 0);
	__sync_synchronize();
	c->parked = 1;
	while (!c->resume) {
		struct timespec ts = { 0, 20000 };
		nanosleep(&ts, 0);
	}
	c->parked = 0;
}

/* called before a state-changing call; returns its mutation index */
static uint32_t mut_begin(void)
{
	struct sim_cmd* c = C;
	uint32_t idx = ++c->mut_count;
	if (c->clock_jump_at && c->clock_jump_at == idx)
		clock_ns += c->clock_jump_ns;
	if (c->park_at && c->park_at == idx)
		sim_park();
	if (c->kill_at && c->kill_at == idx && c->kill_mode == 0)
		sim_die();
	return idx;
}

static void mut_end(uint32_t idx)
{
	struct sim_cmd* c = C;
	if (c->kill_at && c->kill_at == idx && c->kill_mode != 0)
		sim_die();
}

static int is_torn_kill(uint32_t idx)
{
	return C->kill_at && C->kill_at == idx && C->kill_mode == 2;
}

/* ------------------------------------------------------------------------ */
/* fd table */

#define FD_CAP 1024
struct fdent {
	uint32_t path;
	int flags;
	int urandom;
	int dev;
};
static struct fdent fdtab[FD_CAP];
static uint64_t urandom_calls;

static void fdtab_set(int fd, uint32_t path, int flags, int dev)
{
	if (fd >= 0 && fd < FD_CAP) {
		fdtab[fd].path = path;
		fdtab[fd].flags = flags;
		fdtab[fd].urandom = 0;
		fdtab[fd].dev = dev;
	}
}

static struct fdent* fd_get(int fd)
{
	if (fd >= 0 && fd < FD_CAP && fdtab[fd].path)
		return &fdtab[fd];
	return 0;
}

/* the kernel stamps modified files with its own clock: make that the simulated one */
static void stamp_fd(int fd)
{
	struct timespec ts[2];
	ts[0].tv_sec = clock_ns / 1000000000LL;
	ts[0].tv_nsec = clock_ns % 1000000000LL;
	ts[1] = ts[0];
	__real_futimens(fd, ts);
}

/* ------------------------------------------------------------------------ */
/* fault matching */

static int path_match(const char* pat, const char* rel)
{
	size_t n;
	if (!pat[0])
		return 1;
	if (!rel)
		return 0;
	n = strlen(pat);
	if (pat[n - 1] == '*')
		return strncmp(pat, rel, n - 1) == 0;
	return strcmp(pat, rel) == 0;
}

static void concurrent_action(struct sim_fault* f)
{
	char full[512];
	struct timespec ts[2];
	int fd;
	snprintf(full, sizeof(full), "%s/%s", sim_sh->root, f->apath);
	ev_add(EV_CONCURRENT, 0, sim_path_intern(full), f->action, f->asize, 0, 0);
	switch (f->action) {
	case CA_REMOVE :
		unlink(full);
		break;
	case CA_TRUNCATE :
		if (truncate(full, f->asize) != 0) {
		}
		ts[0].tv_sec = f->asec; ts[0].tv_nsec = f->ansec;
		ts[1] = ts[0];
		__real_utimensat(AT_FDCWD, full, ts, 0);
		break;
	case CA_APPEND :
		fd = __real_open(full, O_WRONLY | O_APPEND);
		if (fd >= 0) {
			char buf[4096];
			int64_t left = f->asize;
			uint64_t pos = 0;
			while (left > 0) {
				size_t n = left > (int64_t)sizeof(buf) ? sizeof(buf) : (size_t)left;
				sim_fill(f->aseed, buf, n, pos);
				if (__real_write(fd, buf, n) < 0)
					break;
				pos += n;
				left -= n;
			}
			ts[0].tv_sec = f->asec; ts[0].tv_nsec = f->ansec;
			ts[1] = ts[0];
			__real_futimens(fd, ts);
			__real_close(fd);
		}
		break;
	case CA_TOUCH :
		ts[0].tv_sec = f->asec; ts[0].tv_nsec = f->ansec;
		ts[1] = ts[0];
		__real_utimensat(AT_FDCWD, full, ts, 0);
		break;
	case CA_REWRITE :
		fd = __real_open(full, O_WRONLY);
		if (fd >= 0) {
			char buf[4096];
			int64_t left = f->asize;
			uint64_t pos = 0;
			while (left > 0) {
				size_t n = left > (int64_t)sizeof(buf) ? sizeof(buf) : (size_t)left;
				sim_fill(f->aseed, buf, n, pos);
				if (__real_pwrite(fd, buf, n, pos) < 0)
					break;
				pos += n;
				left -= n;
			}
			ts[0].tv_sec = f->asec; ts[0].tv_nsec = f->ansec;
			ts[1] = ts[0];
			__real_futimens(fd, ts);
			__real_close(fd);
		}
		break;
	}
}

/*
 * Look for a planned fault on this call.  Side-effect faults (concurrent
 * change, signal) are executed here; the function returns the errno to fail
 * the call with, or 0.  *shortp is set for a short read.
 */
static int fault_check(int opc, const char* rel, int64_t off, int64_t len, int* shortp)
{
	struct sim_cmd* c = C;
	int i;
	int err = 0;
	for (i = 0; i < c->nfaults; ++i) {
		struct sim_fault* f = &c->faults[i];
		int max = f->count > 0 ? f->count : 1;
		if (!(f->opmask & opc))
			continue;
		if (!path_match(f->path, rel))
			continue;
		if (f->off_hi > f->off_lo) {
			int64_t a = off, b = off + (len > 0 ? len : 1);
			if (b <= f->off_lo || a >= f->off_hi)
				continue;
		}
		if (f->seen++ < f->nth)
			continue;
		if (f->fired >= max)
			continue;
		++f->fired;
		ev_add(EV_FAULT, 0, rel ? sim_path_intern(rel) : 0, off, len, f->kind, i);
		switch (f->kind) {
		case FK_ERRNO :
			if (!err)
				err = f->err;
			break;
		case FK_CONCURRENT :
			concurrent_action(f);
			break;
		case FK_SIGNAL :
			++c->signals_raised;
			raise(f->err);
			break;
		case FK_SHORT :
			if (shortp)
				*shortp = 1;
			break;
		case FK_CORRUPT :
			if (shortp)
				*shortp = 2;
			break;
		}
	}
	return err;
}

static void system_faults(void)
{
	struct sim_cmd* c = C;
	int i;
	for (i = 0; i < c->nfaults; ++i) {
		struct sim_fault* f = &c->faults[i];
		if (f->kind == FK_CONCURRENT && f->opmask == 0) {
			++f->fired;
			ev_add(EV_FAULT, 0, 0, 0, 0, f->kind, i);
			concurrent_action(f);
		}
	}
}

/* full-disk budget: bytes of regular files directly in the top directory of the device */
static int64_t dev_usage(int dev, const char* skip_name, int64_t* skip_size)
{
	char dirp[512];
	DIR* d;
	struct dirent* e;
	int64_t total = 0;
	snprintf(dirp, sizeof(dirp), "%s/%s", sim_sh->root, sim_sh->dev[dev].top);
	d = __real_opendir(dirp);
	if (!d)
		return 0;
	while ((e = __real_readdir(d)) != 0) {
		struct stat st;
		if (fstatat(__real_dirfd(d), e->d_name, &st, AT_SYMLINK_NOFOLLOW) == 0 && S_ISREG(st.st_mode)) {
			if (skip_name && strcmp(skip_name, e->d_name) == 0) {
				if (skip_size)
					*skip_size = st.st_size;
				continue;
			}
			total += st.st_size;
		}
	}
	__real_closedir(d);
	return total;
}

/* would growing the file behind fd to new_size exceed the device budget? */
static int budget_exceeded(int fd, int64_t new_size)
{
	struct fdent* e = fd_get(fd);
	const char* rel;
	const char* base;
	int64_t own = 0;
	int64_t others;
	struct sim_dev* d;
	if (!e || e->dev < 0)
		return 0;
	d = &sim_sh->dev[e->dev];
	if (d->budget_bytes < 0)
		return 0;
	rel = sim_path_str(e->path);
	base = strrchr(rel, '/');
	base = base ? base + 1 : rel;
	others = dev_usage(e->dev, base, &own);
	if (new_size <= own)
		return 0;
	return others + new_size > d->budget_bytes;
}

/* ------------------------------------------------------------------------ */
/* stat rewriting */

static void stat_fix(const char* rel, struct stat* st)
{
	int dev = dev_index_rel(rel);
	if (dev >= 0)
		st->st_dev = dev_number(dev);
	else
		st->st_dev = makedev(8, 0);
	st->st_ino = sim_vino_get(st->st_ino);
}

int __wrap_stat(const char* p, struct stat* st)
{
	const char* rel;
	int r;
	if (!sim_active)
		return __real_stat(p, st);
	rel = relpath(p);
	if (rel) {
		int err = fault_check(OPC_STAT, rel, 0, 0, 0);
		if (err) {
			errno = err;
			return -1;
		}
	}
	r = __real_stat(p, st);
	if (rel && r == 0)
		stat_fix(rel, st);
	if (rel && C->trace_stat)
		ev_add(EV_STAT, 0, sim_path_intern(p), 0, 0, res_of(r), 0);
	return r;
}

int __wrap_lstat(const char* p, struct stat* st)
{
	const char* rel;
	int r;
	if (!sim_active)
		return __real_lstat(p, st);
	rel = relpath(p);
	if (rel) {
		int err = fault_check(OPC_STAT, rel, 0, 0, 0);
		if (err) {
			errno = err;
			return -1;
		}
	}
	r = __real_lstat(p, st);
	if (rel && r == 0)
		stat_fix(rel, st);
	if (rel && C->trace_stat)
		ev_add(EV_LSTAT, 0, sim_path_intern(p), 0, 0, res_of(r), 0);
	return r;
}

int __wrap_fstat(int fd, struct stat* st)
{
	struct fdent* e;
	int r;
	if (!sim_active)
		return __real_fstat(fd, st);
	r = __real_fstat(fd, st);
	e = fd_get(fd);
	if (e && r == 0 && !e->urandom) {
		stat_fix(sim_path_str(e->path), st);
		if (C->trace_stat)
			ev_add(EV_FSTAT, 0, e->path, 0, 0, res_of(r), 0);
	}
	return r;
}

int __wrap_fstatat(int dfd, const char* p, struct stat* st, int flags)
{
	int r;
	r = __real_fstatat(dfd, p, st, flags);
	if (sim_active && r == 0 && dfd == AT_FDCWD) {
		const char* rel = relpath(p);
		if (rel)
			stat_fix(rel, st);
	}
	return r;
}

int __wrap_access(const char* p, int mode)
{
	int r = __real_access(p, mode);
	if (sim_active && relpath(p))
		ev_add(EV_ACCESS, 0, sim_path_intern(p), mode, 0, res_of(r), 0);
	return r;
}

int __wrap_statfs(const char* p, struct statfs* st)
{
	int r = __real_statfs(p, st);
	if (sim_active && r == 0) {
		struct sim_dev* d = sim_dev_of_path(p);
		if (d) {
			st->f_type = d->fstype;
			st->f_bsize = 4096;
			st->f_blocks = d->total_bytes / 4096;
			st->f_bfree = d->free_bytes / 4096;
			st->f_bavail = st->f_bfree;
		}
	}
	return r;
}

/* ------------------------------------------------------------------------ */
/* directories */

#define SIMDIR_CAP 64
struct simdir {
	int used;
	DIR* real;
	int n;
	int pos;
	struct dirent* ents;
	uint64_t* keys;
};
static struct simdir simdirs[SIMDIR_CAP];

static struct simdir* simdir_of(DIR* d)
{
	if ((char*)d >= (char*)simdirs && (char*)d < (char*)(simdirs + SIMDIR_CAP))
		return (struct simdir*)d;
	return 0;
}

DIR* __wrap_opendir(const char* p)
{
	const char* rel;
	DIR* real;
	struct simdir* sd = 0;
	struct dirent* e;
	uint64_t hdir;
	int i, cap;
	if (!sim_active)
		return __real_opendir(p);
	rel = relpath(p);
	if (!rel) {
		if (strncmp(p, "/dev/", 5) == 0 || strncmp(p, "/sys/", 5) == 0 || strncmp(p, "/proc/", 6) == 0) {
			errno = ENOENT;
			return 0;
		}
		return __real_opendir(p);
	}
	sim_yield();
	real = __real_opendir(p);
	ev_add(EV_OPENDIR, 0, sim_path_intern(p), 0, 0, real ? 0 : -errno, 0);
	if (!real)
		return 0;
	for (i = 0; i < SIMDIR_CAP; ++i)
		if (!simdirs[i].used) {
			sd = &simdirs[i];
			break;
		}
	if (!sd)
		sim_internal("too many open directories");
	sd->used = 1;
	sd->real = real;
	sd->n = 0;
	sd->pos = 0;
	cap = 16;
	sd->ents = __real_malloc(cap * sizeof(struct dirent));
	sd->keys = __real_malloc(cap * sizeof(uint64_t));
	/* normalise the directory name (no trailing slashes) for the order hash */
	{
		char tmp[512];
		size_t n;
		snprintf(tmp, sizeof(tmp), "%s", rel);
		n = strlen(tmp);
		while (n > 0 && tmp[n - 1] == '/')
			tmp[--n] = 0;
		hdir = hash_str(sim_mix(C->run_seed, 0xd1d1), tmp);
	}
	while ((e = __real_readdir(real)) != 0) {
		if (sd->n == cap) {
			cap *= 2;
			sd->ents = realloc(sd->ents, cap * sizeof(struct dirent));
			sd->keys = realloc(sd->keys, cap * sizeof(uint64_t));
		}
		sd->ents[sd->n] = *e;
		sd->ents[sd->n].d_ino = sim_vino_get(e->d_ino);
		sd->keys[sd->n] = hash_str(hdir, e->d_name);
		++sd->n;
	}
	/* insertion sort by key */
	for (i = 1; i < sd->n; ++i) {
		struct dirent te = sd->ents[i];
		uint64_t tk = sd->keys[i];
		int j = i - 1;
		while (j >= 0 && (sd->keys[j] > tk || (sd->keys[j] == tk && strcmp(sd->ents[j].d_name, te.d_name) > 0))) {
			sd->ents[j + 1] = sd->ents[j];
			sd->keys[j + 1] = sd->keys[j];
			--j;
		}
		sd->ents[j + 1] = te;
		sd->keys[j + 1] = tk;
	}
	return (DIR*)sd;
}

struct dirent* __wrap_readdir(DIR* d)
{
	struct simdir* sd = simdir_of(d);
	if (!sd)
		return __real_readdir(d);
	if (sd->pos >= sd->n)
		return 0;
	return &sd->ents[sd->pos++];
}

int __wrap_closedir(DIR* d)
{
	struct simdir* sd = simdir_of(d);
	int r;
	if (!sd)
		return __real_closedir(d);
	r = __real_closedir(sd->real);
	free(sd->ents);
	free(sd->keys);
	sd->used = 0;
	return r;
}

int __wrap_dirfd(DIR* d)
{
	struct simdir* sd = simdir_of(d);
	if (!sd)
		return __real_dirfd(d);
	return __real_dirfd(sd->real);
}

ssize_t __wrap_readlink(const char* p, char* buf, size_t n)
{
	ssize_t r = __real_readlink(p, buf, n);
	if (sim_active && relpath(p))
		ev_add(EV_READLINK, 0, sim_path_intern(p), 0, 0, res_of(r), 0);
	return r;
}

/* ------------------------------------------------------------------------ */
/* open / close / read / write */

int __wrap_open(const char* p, int flags, ...)
{
	mode_t mode = 0;
	const char* rel;
	int fd;
	int existed = 1;
	int is_mut;
	uint32_t idx = 0;
	uint32_t pid;
	int err;
	int opc;

	if (flags & (O_CREAT | O_TMPFILE)) {
		va_list ap;
		va_start(ap, flags);
		mode = va_arg(ap, mode_t);
		va_end(ap);
	}
	if (!sim_active)
		return __real_open(p, flags, mode);

	if (strcmp(p, "/dev/urandom") == 0 || strcmp(p, "/dev/random") == 0) {
		fd = __real_open("/dev/null", O_RDONLY);
		if (fd >= 0 && fd < FD_CAP) {
			fdtab_set(fd, sim_path_intern(p), flags, -1);
			fdtab[fd].urandom = 1;
		}
		return fd;
	}
	rel = relpath(p);
	if (!rel)
		return __real_open(p, flags, mode);

	sim_yield();

	opc = OPC_OPEN | (((flags & O_ACCMODE) == O_RDONLY) ? OPC_OPEN_RD : OPC_OPEN_WR);
	err = fault_check(opc, rel, 0, 0, 0);
	pid = sim_path_intern(p);
	if (err) {
		errno = err;
		ev_add(EV_OPEN, EVF_FAULT, pid, flags, 0, -err, 0);
		return -1;
	}

	is_mut = 0;
	if (flags & O_CREAT) {
		struct stat st;
		existed = __real_lstat(p, &st) == 0;
		if (!existed)
			is_mut = 1;
	}
	if ((flags & O_TRUNC) && (flags & O_ACCMODE) != O_RDONLY)
		is_mut = 1;
	if (is_mut)
		idx = mut_begin();

	fd = __real_open(p, flags, mode);
	if (fd >= 0)
		fdtab_set(fd, pid, flags, dev_index_rel(rel));
	if (fd >= 0 && is_mut)
		stamp_fd(fd);
	ev_add(EV_OPEN, (is_mut ? EVF_MUT : 0) | ((!existed && fd >= 0) ? EVF_CREATED : 0), pid, flags, 0, res_of(fd), 0);
	if (is_mut) {
		sim_sh->trace[sim_slot][(C->nev - 1) & (SIM_TRACE_CAP - 1)].mut = idx;
		mut_end(idx);
	}
	return fd;
}

FILE* __wrap_fopen(const char* p, const char* mode)
{
	if (sim_active && !relpath(p)) {
		if (strncmp(p, "/proc/", 6) == 0 || strncmp(p, "/sys/", 5) == 0 || strncmp(p, "/dev/", 5) == 0) {
			errno = ENOENT;
			return 0;
		}
	}
	return __real_fopen(p, mode);
}

int __wrap_close(int fd)
{
	struct fdent* e;
	int r;
	if (!sim_active)
		return __real_close(fd);
	e = fd_get(fd);
	if (e && !e->urandom) {
		int err;
		sim_yield();
		err = fault_check(OPC_CLOSE, sim_path_str(e->path), 0, 0, 0);
		r = __real_close(fd);
		if (err) {
			errno = err;
			r = -1;
		}
		ev_add(EV_CLOSE, err ? EVF_FAULT : 0, e->path, 0, 0, res_of(r), 0);
		e->path = 0;
		return r;
	}
	if (e)
		e->path = 0;
	return __real_close(fd);
}

static int is_array_io(const char* rel)
{
	/* data disks "d*", parity "p*": the calls counted by io_count */
	return rel && (rel[0] == 'd' || rel[0] == 'p' || rel[0] == 'q') && rel[1] >= '0' && rel[1] <= '9';
}

static void io_tick(const char* rel)
{
	struct sim_cmd* c = C;
	if (!is_array_io(rel))
		return;
	++c->io_count;
	if (c->sig_at_io && c->sig_at_io == c->io_count) {
		++c->signals_raised;
		ev_add(EV_SIGNAL, 0, 0, c->sig_no, 0, 0, 0);
		raise(c->sig_no);
	}
}

static ssize_t short_len(struct fdent* e, int64_t off, size_t n, int forced)
{
	struct sim_cmd* c = C;
	uint64_t h;
	if (n <= 1)
		return n;
	h = sim_mix(sim_mix(c->run_seed, c->cmd_index), sim_mix(e->path, (uint64_t)off * 31 + n));
	if (forced || (c->short_read_per_1024 > 0 && (int)(h & 1023) < c->short_read_per_1024)) {
		++c->short_reads;
		return 1 + (h >> 12) % (n - 1);
	}
	return n;
}

ssize_t __wrap_read(int fd, void* buf, size_t n)
{
	struct fdent* e;
	ssize_t r;
	int err;
	int shortf = 0;
	const char* rel;
	size_t want = n;
	if (!sim_active)
		return __real_read(fd, buf, n);
	e = fd_get(fd);
	if (!e)
		return __real_read(fd, buf, n);
	if (e->urandom) {
		sim_fill(sim_mix(sim_mix(C->run_seed, 0x7261), C->cmd_index), buf, n, urandom_calls);
		urandom_calls += n + 13;
		return n;
	}
	sim_yield();
	rel = sim_path_str(e->path);
	err = fault_check(OPC_READ, rel, -1, n, &shortf);
	if (err) {
		errno = err;
		ev_add(EV_READ, EVF_FAULT, e->path, -1, n, -err, 0);
		return -1;
	}
	want = short_len(e, (int64_t)C->nev, n, shortf);
	r = __real_read(fd, buf, want);
	ev_add(EV_READ, want != n ? EVF_SHORT : 0, e->path, -1, n, res_of(r), 0);
	return r;
}

ssize_t __wrap_pread(int fd, void* buf, size_t n, off_t off)
{
	struct fdent* e;
	ssize_t r;
	int err;
	int shortf = 0;
	const char* rel;
	size_t want;
	if (!sim_active)
		return __real_pread(fd, buf, n, off);
	e = fd_get(fd);
	if (!e)
		return __real_pread(fd, buf, n, off);
	sim_yield();
	rel = sim_path_str(e->path);
	io_tick(rel);
	err = fault_check(OPC_PREAD, rel, off, n, &shortf);
	if (err) {
		errno = err;
		ev_add(EV_PREAD, EVF_FAULT, e->path, off, n, -err, (uint64_t)(uintptr_t)buf);
		return -1;
	}
	want = short_len(e, off, n, shortf);
	r = __real_pread(fd, buf, want, off);
	ev_add(EV_PREAD, want != n ? EVF_SHORT : 0, e->path, off, n, res_of(r), (uint64_t)(uintptr_t)buf);
	return r;
}

ssize_t __wrap_write(int fd, const void* buf, size_t n)
{
	struct fdent* e;
	ssize_t r;
	int err;
	uint32_t idx;
	if (!sim_active)
		return __real_write(fd, buf, n);
	e = fd_get(fd);
	if (!e || e->urandom)
		return __real_write(fd, buf, n);
	sim_yield();
	{
		int special = 0;
		err = fault_check(OPC_WRITE, sim_path_str(e->path), -1, n, &special);
		if (!err && special == 2 && n > 0) {
			/* silent corruption: one byte altered on its way to the disk, the call succeeds */
			unsigned char* copy = __real_malloc(n);
			size_t at = sim_mix(C->run_seed, C->nev) % n;
			memcpy(copy, buf, n);
			copy[at] ^= (unsigned char)(1 + sim_mix(C->run_seed, at) % 255);
			idx = mut_begin();
			r = __real_write(fd, copy, n);
			free(copy);
			ev_add(EV_WRITE, EVF_MUT | EVF_FAULT, e->path, -1, n, res_of(r), 2)->mut = idx;
			mut_end(idx);
			return r;
		}
	}
	idx = mut_begin();
	if (err) {
		errno = err;
		ev_add(EV_WRITE, EVF_MUT | EVF_FAULT, e->path, -1, n, -err, 0)->mut = idx;
		mut_end(idx);
		return -1;
	}
	if (is_torn_kill(idx) && n > 1) {
		size_t part = 1 + sim_mix(C->run_seed, idx) % (n - 1);
		r = __real_write(fd, buf, part);
		stamp_fd(fd);
		ev_add(EV_WRITE, EVF_MUT, e->path, -1, n, res_of(r), 1)->mut = idx;
		sim_die();
	}
	r = __real_write(fd, buf, n);
	if (r > 0)
		stamp_fd(fd);
	ev_add(EV_WRITE, EVF_MUT, e->path, -1, n, res_of(r), 0)->mut = idx;
	mut_end(idx);
	return r;
}

ssize_t __wrap_pwrite(int fd, const void* buf, size_t n, off_t off)
{
	struct fdent* e;
	ssize_t r;
	int err;
	uint32_t idx;
	const char* rel;
	if (!sim_active)
		return __real_pwrite(fd, buf, n, off);
	e = fd_get(fd);
	if (!e)
		return __real_pwrite(fd, buf, n, off);
	sim_yield();
	rel = sim_path_str(e->path);
	io_tick(rel);
	err = fault_check(OPC_PWRITE, rel, off, n, 0);
	if (!err && budget_exceeded(fd, off + (int64_t)n))
		err = ENOSPC;
	idx = mut_begin();
	if (err) {
		errno = err;
		ev_add(EV_PWRITE, EVF_MUT | EVF_FAULT, e->path, off, n, -err, (uint64_t)(uintptr_t)buf)->mut = idx;
		mut_end(idx);
		return -1;
	}
	if (is_torn_kill(idx) && n > 1) {
		size_t part = 1 + sim_mix(C->run_seed, idx) % (n - 1);
		r = __real_pwrite(fd, buf, part, off);
		stamp_fd(fd);
		ev_add(EV_PWRITE, EVF_MUT, e->path, off, n, res_of(r), 1)->mut = idx;
		sim_die();
	}
	r = __real_pwrite(fd, buf, n, off);
	if (r > 0)
		stamp_fd(fd);
	ev_add(EV_PWRITE, EVF_MUT, e->path, off, n, res_of(r), (uint64_t)(uintptr_t)buf)->mut = idx;
	mut_end(idx);
	return r;
}

int __wrap_fsync(int fd)
{
	struct fdent* e;
	int r, err;
	uint32_t idx;
	if (!sim_active)
		return __real_fsync(fd);
	e = fd_get(fd);
	if (!e)
		return __real_fsync(fd);
	sim_yield();
	err = fault_check(OPC_FSYNC, sim_path_str(e->path), 0, 0, 0);
	idx = mut_begin();
	if (err) {
		errno = err;
		r = -1;
	} else {
		r = __real_fsync(fd);
	}
	ev_add(EV_FSYNC, EVF_MUT | (err ? EVF_FAULT : 0), e->path, 0, 0, res_of(r), 0)->mut = idx;
	mut_end(idx);
	return r;
}

int __wrap_ftruncate(int fd, off_t len)
{
	struct fdent* e;
	int r, err;
	uint32_t idx;
	if (!sim_active)
		return __real_ftruncate(fd, len);
	e = fd_get(fd);
	if (!e)
		return __real_ftruncate(fd, len);
	sim_yield();
	err = fault_check(OPC_FTRUNCATE, sim_path_str(e->path), len, 0, 0);
	if (!err && budget_exceeded(fd, len))
		err = ENOSPC;
	idx = mut_begin();
	if (err) {
		errno = err;
		r = -1;
	} else {
		r = __real_ftruncate(fd, len);
		if (r == 0)
			stamp_fd(fd);
	}
	ev_add(EV_FTRUNCATE, EVF_MUT | (err ? EVF_FAULT : 0), e->path, len, 0, res_of(r), 0)->mut = idx;
	mut_end(idx);
	return r;
}

int __wrap_fallocate(int fd, int mode, off_t off, off_t len)
{
	struct fdent* e;
	int r, err;
	uint32_t idx;
	if (!sim_active)
		return __real_fallocate(fd, mode, off, len);
	e = fd_get(fd);
	if (!e)
		return __real_fallocate(fd, mode, off, len);
	sim_yield();
	err = fault_check(OPC_FALLOCATE, sim_path_str(e->path), off, len, 0);
	if (!err && budget_exceeded(fd, off + len))
		err = ENOSPC;
	idx = mut_begin();
	if (err) {
		errno = err;
		r = -1;
	} else {
		r = __real_fallocate(fd, mode, off, len);
		if (r == 0)
			stamp_fd(fd);
	}
	ev_add(EV_FALLOCATE, EVF_MUT | (err ? EVF_FAULT : 0), e->path, off, len, res_of(r), mode)->mut = idx;
	mut_end(idx);
	return r;
}

int __wrap_posix_fadvise(int fd, off_t off, off_t len, int adv)
{
	return __real_posix_fadvise(fd, off, len, adv);
}

int __wrap_sync_file_range(int fd, off64_t off, off64_t n, unsigned flags)
{
	return __real_sync_file_range(fd, off, n, flags);
}

/* ------------------------------------------------------------------------ */
/* namespace changes */

#define NS_PROLOGUE(opc_, p_) \
	const char* rel = relpath(p_); \
	uint32_t idx; \
	int err; \
	int r; \
	if (!rel) goto passthrough; \
	sim_yield(); \
	err = fault_check(opc_, rel, 0, 0, 0); \
	idx = mut_begin();

int __wrap_rename(const char* a, const char* b)
{
	if (!sim_active)
		return __real_rename(a, b);
	{
		NS_PROLOGUE(OPC_RENAME, b)
		if (err) {
			errno = err;
			r = -1;
		} else {
			r = __real_rename(a, b);
		}
		ev_add(EV_RENAME, EVF_MUT | (err ? EVF_FAULT : 0), sim_path_intern(a), 0, 0, res_of(r), sim_path_intern(b))->mut = idx;
		mut_end(idx);
		return r;
	}
passthrough:
	return __real_rename(a, b);
}

int __wrap_remove(const char* p)
{
	if (!sim_active)
		return __real_remove(p);
	{
		struct stat st;
		int have;
		NS_PROLOGUE(OPC_REMOVE, p)
		have = __real_lstat(p, &st) == 0;
		if (err) {
			errno = err;
			r = -1;
		} else {
			r = __real_remove(p);
		}
		if (r == 0 && have && (S_ISDIR(st.st_mode) || st.st_nlink <= 1))
			sim_vino_del(st.st_ino);
		ev_add(EV_REMOVE, EVF_MUT | (err ? EVF_FAULT : 0), sim_path_intern(p), 0, 0, res_of(r), 0)->mut = idx;
		mut_end(idx);
		return r;
	}
passthrough:
	return __real_remove(p);
}

int __wrap_rmdir(const char* p)
{
	if (!sim_active)
		return __real_rmdir(p);
	{
		struct stat st;
		int have;
		NS_PROLOGUE(OPC_REMOVE, p)
		have = __real_lstat(p, &st) == 0;
		if (err) {
			errno = err;
			r = -1;
		} else {
			r = __real_rmdir(p);
		}
		if (r == 0 && have)
			sim_vino_del(st.st_ino);
		ev_add(EV_RMDIR, EVF_MUT | (err ? EVF_FAULT : 0), sim_path_intern(p), 0, 0, res_of(r), 0)->mut = idx;
		mut_end(idx);
		return r;
	}
passthrough:
	return __real_rmdir(p);
}

int __wrap_mkdir(const char* p, mode_t m)
{
	if (!sim_active)
		return __real_mkdir(p, m);
	{
		NS_PROLOGUE(OPC_OPEN, p)
		if (err) {
			errno = err;
			r = -1;
		} else {
			r = __real_mkdir(p, m);
		}
		ev_add(EV_MKDIR, EVF_MUT | (err ? EVF_FAULT : 0), sim_path_intern(p), 0, 0, res_of(r), 0)->mut = idx;
		mut_end(idx);
		return r;
	}
passthrough:
	return __real_mkdir(p, m);
}

int __wrap_link(const char* a, const char* b)
{
	if (!sim_active)
		return __real_link(a, b);
	{
		NS_PROLOGUE(OPC_OPEN, b)
		if (err) {
			errno = err;
			r = -1;
		} else {
			r = __real_link(a, b);
		}
		ev_add(EV_LINK, EVF_MUT | (err ? EVF_FAULT : 0), sim_path_intern(b), 0, 0, res_of(r), sim_path_intern(a))->mut = idx;
		mut_end(idx);
		return r;
	}
passthrough:
	return __real_link(a, b);
}

int __wrap_symlink(const char* a, const char* b)
{
	if (!sim_active)
		return __real_symlink(a, b);
	{
		NS_PROLOGUE(OPC_OPEN, b)
		if (err) {
			errno = err;
			r = -1;
		} else {
			r = __real_symlink(a, b);
		}
		ev_add(EV_SYMLINK, EVF_MUT | (err ? EVF_FAULT : 0), sim_path_intern(b), 0, 0, res_of(r), 0)->mut = idx;
		mut_end(idx);
		return r;
	}
passthrough:
	return __real_symlink(a, b);
}

int __wrap_utimensat(int dfd, const char* p, const struct timespec ts[2], int flags)
{
	if (!sim_active)
		return __real_utimensat(dfd, p, ts, flags);
	{
		NS_PROLOGUE(OPC_UTIME, p)
		if (err) {
			errno = err;
			r = -1;
		} else {
			r = __real_utimensat(dfd, p, ts, flags);
		}
		ev_add(EV_UTIME, EVF_MUT | (err ? EVF_FAULT : 0), sim_path_intern(p), ts ? ts[1].tv_sec : 0, ts ? ts[1].tv_nsec : 0, res_of(r), 0)->mut = idx;
		mut_end(idx);
		return r;
	}
passthrough:
	return __real_utimensat(dfd, p, ts, flags);
}

int __wrap_futimens(int fd, const struct timespec ts[2])
{
	struct fdent* e;
	int r, err;
	uint32_t idx;
	if (!sim_active)
		return __real_futimens(fd, ts);
	e = fd_get(fd);
	if (!e)
		return __real_futimens(fd, ts);
	sim_yield();
	err = fault_check(OPC_UTIME, sim_path_str(e->path), 0, 0, 0);
	idx = mut_begin();
	if (err) {
		errno = err;
		r = -1;
	} else {
		r = __real_futimens(fd, ts);
	}
	ev_add(EV_UTIME, EVF_MUT | (err ? EVF_FAULT : 0), e->path, ts ? ts[1].tv_sec : 0, ts ? ts[1].tv_nsec : 0, res_of(r), 1)->mut = idx;
	mut_end(idx);
	return r;
}

int __wrap_flock(int fd, int op)
{
	int r = __real_flock(fd, op);
	if (sim_active) {
		struct fdent* e = fd_get(fd);
		ev_add(EV_FLOCK, 0, e ? e->path : 0, op, 0, res_of(r), 0);
	}
	return r;
}

/* ------------------------------------------------------------------------ */
/* ioctl (FIEMAP / FIBMAP), blkid, external programs, allocation */

int __wrap_ioctl(int fd, unsigned long req, ...)
{
	va_list ap;
	void* arg;
	va_start(ap, req);
	arg = va_arg(ap, void*);
	va_end(ap);
	if (!sim_active)
		return __real_ioctl(fd, req, arg);
	if (req == FS_IOC_FIEMAP) {
		struct fiemap* fm = arg;
		struct stat st;
		if (C->fiemap_mode == 0 || __real_fstat(fd, &st) != 0) {
			errno = ENOTTY;
			return -1;
		}
		fm->fm_mapped_extents = 1;
		if (fm->fm_extent_count >= 1) {
			memset(&fm->fm_extents[0], 0, sizeof(fm->fm_extents[0]));
			if (C->fiemap_mode == 2) {
				fm->fm_extents[0].fe_flags = FIEMAP_EXTENT_DATA_INLINE;
			} else {
				uint64_t v = sim_vino_get(st.st_ino);
				fm->fm_extents[0].fe_physical = 4096 * (1 + sim_mix(sim_mix(C->run_seed, 0xf1e), v) % 1000000);
			}
		}
		return 0;
	}
	if (req == FIBMAP) {
		errno = ENOTTY;
		return -1;
	}
	return __real_ioctl(fd, req, arg);
}

/* libblkid is answered from the device table */
typedef struct blkid_struct_cache* blkid_cache;
int __real_blkid_get_cache(blkid_cache* cache, const char* filename);
void __real_blkid_put_cache(blkid_cache cache);
char* __real_blkid_devno_to_devname(dev_t devno);
char* __real_blkid_get_tag_value(blkid_cache cache, const char* tagname, const char* devname);

int __wrap_blkid_get_cache(blkid_cache* cache, const char* filename)
{
	if (!sim_active)
		return __real_blkid_get_cache(cache, filename);
	*cache = 0;
	return 0;
}

void __wrap_blkid_put_cache(blkid_cache cache)
{
	if (!sim_active)
		__real_blkid_put_cache(cache);
}

char* __wrap_blkid_devno_to_devname(dev_t devno)
{
	int idx;
	char buf[64];
	if (!sim_active)
		return __real_blkid_devno_to_devname(devno);
	idx = dev_from_number(devno);
	if (idx < 0 || !sim_sh->dev[idx].uuid[0]) {
		errno = ENOENT;
		return 0;
	}
	snprintf(buf, sizeof(buf), "/dev/sim%d", idx);
	return strdup(buf);
}

char* __wrap_blkid_get_tag_value(blkid_cache cache, const char* tagname, const char* devname)
{
	int idx;
	if (!sim_active)
		return __real_blkid_get_tag_value(cache, tagname, devname);
	if (strncmp(devname, "/dev/sim", 8) != 0)
		return 0;
	idx = atoi(devname + 8);
	if (idx < 0 || idx >= sim_sh->ndev || !sim_sh->dev[idx].uuid[0])
		return 0;
	return strdup(sim_sh->dev[idx].uuid);
}

int __wrap_system(const char* cmd)
{
	if (!sim_active)
		return __real_system(cmd);
	++C->system_calls;
	ev_add(EV_SYSTEM, 0, 0, 0, 0, 0, 0);
	if (cmd && strncmp(cmd, "SIMRUN", 6) == 0) {
		system_faults();
		return 0;
	}
	return -1;
}

FILE* __wrap_popen(const char* cmd, const char* mode)
{
	if (!sim_active)
		return __real_popen(cmd, mode);
	++C->system_calls;
	errno = ENOENT;
	return 0;
}

int __wrap_pclose(FILE* f)
{
	if (!sim_active)
		return __real_pclose(f);
	return -1;
}

static uint32_t malloc_calls;

void* __wrap_malloc(size_t n)
{
	if (sim_active && C->malloc_fail_at) {
		if (++malloc_calls == C->malloc_fail_at)
			return 0;
	}
	return __real_malloc(n);
}

/* ------------------------------------------------------------------------ */
/* child start */

void sim_child_begin(int slot)
{
	struct sim_cmd* c;
	sim_slot = slot;
	c = C;
	sim_active = 1;
	memset(fdtab, 0, sizeof(fdtab));
	memset(simdirs, 0, sizeof(simdirs));
	urandom_calls = 0;
	mono_calls = 0;
	malloc_calls = 0;
	clock_ns = c->clock_ns;
	c->clock_end_ns = clock_ns;
	sched_init();
	c->started = 1;
}
