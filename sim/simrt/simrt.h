/*
 * simrt - simulation runtime linked under the unmodified snapraid objects.
 *
 * Everything snapraid asks the OS goes through the __wrap_* functions of
 * simrt.c (GNU ld --wrap).  In the driver (sim_active == 0) they pass through;
 * in a forked child that runs one snapraid command (sim_active == 1) they
 * virtualise metadata, inject the planned faults, record a trace and hand the
 * baton between threads.
 *
 * This header is shared between the C runtime and the C++ driver.
 */
#ifndef SIMRT_H
#define SIMRT_H

#include <stdint.h>
#include <sys/types.h>

#ifdef __cplusplus
extern "C" {
#endif

#define SIM_TRACE_CAP (1u << 17)
#define SIM_ARENA_CAP (1u << 19)
#define SIM_PATH_CAP 4096
#define SIM_VINO_CAP (1u << 14)
#define SIM_DEV_CAP 48
#define SIM_FAULT_CAP 24
#define SIM_THREAD_CAP 96
#define SIM_NSLOT 2

/* exit codes produced by the runtime itself (never by snapraid) */
#define SIM_EXIT_KILL 137 /* planned process death */
#define SIM_EXIT_DEADLOCK 97
#define SIM_EXIT_STEPS 98
#define SIM_EXIT_INTERNAL 96
#define SIM_EXIT_SANITIZER 77

/* event kinds */
enum {
	EV_NONE = 0,
	EV_OPEN, EV_CLOSE, EV_READ, EV_PREAD, EV_WRITE, EV_PWRITE, EV_FSYNC,
	EV_FTRUNCATE, EV_FALLOCATE, EV_RENAME, EV_REMOVE, EV_RMDIR, EV_MKDIR,
	EV_LINK, EV_SYMLINK, EV_UTIME, EV_STAT, EV_LSTAT, EV_FSTAT, EV_OPENDIR,
	EV_READLINK, EV_FLOCK, EV_ACCESS, EV_STATFS, EV_FADVISE,
	/* io.c trampolines */
	EV_IO_START = 40, EV_IO_STOP, EV_IO_NEXT, EV_IO_GOT_DATA, EV_IO_GOT_PARITY,
	EV_IO_WROTE, EV_IO_WPRESET, EV_IO_WNEXT, EV_W_BEGIN, EV_W_END,
	/* runtime */
	EV_THREAD_CREATE = 60, EV_THREAD_EXIT, EV_FAULT, EV_SIGNAL, EV_KILL,
	EV_CONCURRENT, EV_PARK, EV_SYSTEM, EV_SLEEP, EV_COND_WAIT, EV_SPURIOUS
};

/* flags in sim_ev.flags */
#define EVF_MUT 1      /* state-changing call (has a mutation index) */
#define EVF_FAULT 2    /* a planned fault changed the result */
#define EVF_CREATED 4  /* open() created the file */
#define EVF_SHORT 8    /* short read injected */

struct sim_ev {
	uint32_t seq;
	uint16_t tid;
	uint8_t kind;
	uint8_t flags;
	uint32_t path;   /* interned path id (0 = none) */
	uint32_t mut;    /* mutation index of this call if EVF_MUT, else current count */
	int64_t off;
	int64_t len;
	int64_t res;     /* result (>=0) or -errno */
	uint64_t aux;    /* second path id for rename/link, slot/worker for io events, ... */
};

/* operation classes for fault matching (bit mask) */
#define OPC_PREAD 1
#define OPC_PWRITE 2
#define OPC_OPEN 4
#define OPC_FSYNC 8
#define OPC_FTRUNCATE 16
#define OPC_FALLOCATE 32
#define OPC_RENAME 64
#define OPC_READ 128
#define OPC_WRITE 256
#define OPC_CLOSE 512
#define OPC_STAT 1024
#define OPC_REMOVE 2048
#define OPC_UTIME 4096
#define OPC_OPEN_RD 8192 /* open for reading only */
#define OPC_OPEN_WR 16384 /* open for writing */

/* fault kinds */
enum {
	FK_NONE = 0,
	FK_ERRNO,       /* the matching call fails with .err */
	FK_CONCURRENT,  /* before the matching call run the scripted change .action on .apath */
	FK_SIGNAL,      /* raise(.err) before the matching call */
	FK_SHORT,       /* the matching read returns fewer bytes */
	FK_CORRUPT      /* the matching write reports success but stores one altered byte (silent write corruption) */
};

/* actions of FK_CONCURRENT */
enum {
	CA_NONE = 0,
	CA_REMOVE,      /* unlink apath */
	CA_TRUNCATE,    /* truncate apath to asize */
	CA_APPEND,      /* append asize bytes derived from aseed */
	CA_TOUCH,       /* set mtime of apath to asec/ansec */
	CA_REWRITE      /* overwrite the first asize bytes with bytes from aseed, keep mtime => asec/ansec */
};

struct sim_fault {
	int kind;
	int opmask;          /* OPC_* */
	char path[200];      /* sandbox-relative path to match ("" = any); trailing '*' = prefix */
	int64_t off_lo;      /* match if call range intersects [off_lo, off_hi) ; off_hi<=off_lo => any */
	int64_t off_hi;
	int nth;             /* skip this many matches first */
	int err;             /* errno / signal number */
	int count;           /* how many times it may fire (0 => 1) */
	/* concurrent change */
	int action;
	char apath[200];
	int64_t asize;
	uint64_t aseed;
	int64_t asec;
	int64_t ansec;
	/* result */
	int seen;
	int fired;
};

/* scheduling policies */
enum { SP_RANDOM = 0, SP_PCT, SP_RR, SP_STARVE, SP_MAIN_FIRST, SP_MAIN_LAST, SP_FIFO };

struct sim_cmd {
	/* ---- plan (driver) ---- */
	uint64_t run_seed;
	uint32_t cmd_index;      /* ordinal of the command in the run */
	uint64_t sched_seed;
	int sched_policy;
	int sched_param;         /* quantum / starved thread / #change points */
	int spurious_per_1024;   /* probability of a spurious cond wake-up per decision */
	int lock_yield_per_1024; /* probability that msg/memory lock ops are yield points */
	uint32_t max_steps;
	int64_t clock_ns;        /* simulated wall clock at start */
	int clock_frozen;        /* 1: sleep() does not advance it */
	int64_t clock_jump_ns;   /* added at mutation index clock_jump_at */
	uint32_t clock_jump_at;
	uint32_t kill_at;        /* mutation index (1-based), 0 = never */
	int kill_mode;           /* 0 before, 1 after, 2 torn */
	uint32_t park_at;        /* mutation index at which to park (C14), 0 = never */
	uint32_t sig_at_io;      /* raise sig_no before the n-th data/parity pread/pwrite (1-based) */
	int sig_no;
	uint32_t malloc_fail_at;
	int short_read_per_1024;
	int fiemap_mode;         /* 0 unsupported, 1 hashed offsets, 2 inline(no offset) */
	int trace_stat;          /* also trace stat/lstat/fstat calls */
	int nfaults;
	struct sim_fault faults[SIM_FAULT_CAP];
	/* ---- results (child) ---- */
	volatile uint32_t started;
	volatile uint32_t parked;
	volatile uint32_t resume;
	uint32_t mut_count;
	uint32_t io_count;       /* data/parity pread+pwrite */
	uint32_t nev;            /* events in trace (may exceed cap => overflow) */
	uint32_t seq;
	uint32_t decisions;      /* scheduling decisions with > 1 candidate */
	uint64_t decision_hash;
	uint32_t threads_created;
	uint32_t max_runnable;
	uint32_t spurious;
	uint32_t cond_waits;
	uint32_t short_reads;
	uint32_t killed;
	uint32_t deadlock;
	uint32_t step_overflow;
	uint32_t signals_raised;
	uint32_t system_calls;   /* system()/popen() attempts */
	int64_t clock_end_ns;
	char note[256];          /* wait-for graph on deadlock, internal error text */
};

struct sim_dev {
	char top[40];        /* first path component below root */
	char uuid[40];       /* "" => no uuid (unsupported) */
	uint64_t total_bytes;
	uint64_t free_bytes;
	int64_t budget_bytes; /* full-disk fault: max bytes of regular files (<0: unlimited) */
	uint32_t fstype;
};

struct sim_vino {
	uint64_t real;       /* 0 = empty, 1 = tombstone */
	uint64_t vino;
};

struct sim_shared {
	char root[200];      /* sandbox root, no trailing slash */
	int root_len;
	int ndev;
	struct sim_dev dev[SIM_DEV_CAP];
	volatile int vlock;
	uint64_t next_vino;
	struct sim_vino vino[SIM_VINO_CAP];
	uint32_t npath;
	uint32_t path_off[SIM_PATH_CAP];
	uint32_t arena_used;
	char arena[SIM_ARENA_CAP];
	struct sim_cmd cmd[SIM_NSLOT];
	struct sim_ev trace[SIM_NSLOT][SIM_TRACE_CAP];
};

extern struct sim_shared* sim_sh;   /* MAP_SHARED, created by sim_shared_create() */
extern int sim_active;              /* 1 inside a command child */
extern int sim_slot;                /* which cmd/trace slot this child uses */

struct sim_shared* sim_shared_create(void);
void sim_shared_reset_run(const char* root);  /* new run: clears devices, vinos, paths */
int sim_dev_add(const char* top, const char* uuid, uint64_t total, uint64_t free_);
struct sim_dev* sim_dev_of_path(const char* path);

/* virtual inode table (driver and child) */
uint64_t sim_vino_get(uint64_t real);             /* lookup or assign next */
uint64_t sim_vino_peek(uint64_t real);            /* 0 if unknown */
void sim_vino_set(uint64_t real, uint64_t vino);
void sim_vino_del(uint64_t real);
uint64_t sim_vino_fresh(void);

/* path interning */
uint32_t sim_path_intern(const char* abs_or_rel);
const char* sim_path_str(uint32_t id);

/* child side */
void sim_child_begin(int slot);      /* call right after fork, before snapraid_main */
void sim_child_exit(int code);       /* flush + _exit */

/* deterministic hash used everywhere a "random but schedule independent" value is needed */
uint64_t sim_mix(uint64_t a, uint64_t b);
void sim_fill(uint64_t seed, void* dst, size_t n, uint64_t start);

/* iotramp.c */
void sim_tramp_event(int kind, int64_t a, int64_t b, int64_t c, uint64_t aux);

#ifdef __cplusplus
}
#endif
#endif
