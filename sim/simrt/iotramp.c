/*
 * iotramp.c - slot hand-over trace for cmdline/io.c without touching it.
 *
 * io_init() takes the worker callbacks as arguments and publishes the caller
 * side API as global function pointers; __wrap_io_init substitutes tracing
 * trampolines for both.  Struct layouts come from /repo/cmdline/io.h, so this
 * file follows refactors that keep the API; if it stops compiling the build
 * script links iotramp_stub.c instead and the C13 ownership monitor reports
 * that it had no events (a coverage gap, never a violation).
 */
#include "portable.h"

#include "support.h"
#include "elem.h"
#include "state.h"
#include "parity.h"
#include "handle.h"
#include "io.h"

#include "simrt.h"

void __real_io_init(struct snapraid_io* io, struct snapraid_state* state,
	unsigned io_cache, unsigned buffer_max,
	void (*data_reader)(struct snapraid_worker*, struct snapraid_task*),
	struct snapraid_handle* handle_map, unsigned handle_max,
	void (*parity_reader)(struct snapraid_worker*, struct snapraid_task*),
	void (*parity_writer)(struct snapraid_worker*, struct snapraid_task*),
	struct snapraid_parity_handle* parity_handle_map, unsigned parity_handle_max);

static void (*o_data_reader)(struct snapraid_worker*, struct snapraid_task*);
static void (*o_parity_reader)(struct snapraid_worker*, struct snapraid_task*);
static void (*o_parity_writer)(struct snapraid_worker*, struct snapraid_task*);

static void (*o_io_start)(struct snapraid_io* io, block_off_t blockstart, block_off_t blockmax, bit_vect_t* block_enabled);
static void (*o_io_stop)(struct snapraid_io* io);
static block_off_t (*o_io_read_next)(struct snapraid_io* io, void*** buffer);
static struct snapraid_task* (*o_io_data_read)(struct snapraid_io* io, unsigned* diskcur, unsigned* waiting_map, unsigned* waiting_mac);
static struct snapraid_task* (*o_io_parity_read)(struct snapraid_io* io, unsigned* levcur, unsigned* waiting_map, unsigned* waiting_mac);
static void (*o_io_parity_write)(struct snapraid_io* io, unsigned* levcur, unsigned* waiting_map, unsigned* waiting_mac);
static void (*o_io_write_next)(struct snapraid_io* io, block_off_t blockcur, int skip, int* writer_error);

static int worker_id(struct snapraid_worker* w)
{
	struct snapraid_io* io = w->io;
	if (w >= io->reader_map && w < io->reader_map + io->reader_max)
		return (int)(w - io->reader_map);
	return (int)(io->reader_max + (w - io->writer_map));
}

static void worker_run(void (*fn)(struct snapraid_worker*, struct snapraid_task*), struct snapraid_worker* w, struct snapraid_task* t)
{
	int id = worker_id(w);
	int slot = (int)(t - w->task_map);
	sim_tramp_event(EV_W_BEGIN, id, slot, t->position, (uint64_t)(uintptr_t)t->buffer);
	fn(w, t);
	sim_tramp_event(EV_W_END, id, slot, t->state, (uint64_t)(uintptr_t)t->buffer);
}

static void t_data_reader(struct snapraid_worker* w, struct snapraid_task* t)
{
	worker_run(o_data_reader, w, t);
}

static void t_parity_reader(struct snapraid_worker* w, struct snapraid_task* t)
{
	worker_run(o_parity_reader, w, t);
}

static void t_parity_writer(struct snapraid_worker* w, struct snapraid_task* t)
{
	worker_run(o_parity_writer, w, t);
}

static void t_io_start(struct snapraid_io* io, block_off_t blockstart, block_off_t blockmax, bit_vect_t* block_enabled)
{
	sim_tramp_event(EV_IO_START, io->io_max, io->reader_max, io->writer_max, ((uint64_t)blockstart << 32) | blockmax);
	o_io_start(io, blockstart, blockmax, block_enabled);
}

static void t_io_stop(struct snapraid_io* io)
{
	sim_tramp_event(EV_IO_STOP, 0, 0, 0, 0);
	o_io_stop(io);
	sim_tramp_event(EV_IO_STOP, 1, 0, 0, 0);
}

static block_off_t t_io_read_next(struct snapraid_io* io, void*** buffer)
{
	block_off_t pos;
	sim_tramp_event(EV_IO_NEXT, -1, 0, io->io_max, 0); /* enter: the caller is done with its current slot */
	pos = o_io_read_next(io, buffer);
	sim_tramp_event(EV_IO_NEXT, io->reader_index, pos, io->io_max, 0);
	return pos;
}

static struct snapraid_task* t_io_data_read(struct snapraid_io* io, unsigned* diskcur, unsigned* waiting_map, unsigned* waiting_mac)
{
	struct snapraid_task* t = o_io_data_read(io, diskcur, waiting_map, waiting_mac);
	struct snapraid_worker* w = &io->reader_map[io->data_base + *diskcur];
	sim_tramp_event(EV_IO_GOT_DATA, io->data_base + *diskcur, io->io_max > 1 ? (int)(t - w->task_map) : 0, t->state, t->position);
	return t;
}

static struct snapraid_task* t_io_parity_read(struct snapraid_io* io, unsigned* levcur, unsigned* waiting_map, unsigned* waiting_mac)
{
	struct snapraid_task* t = o_io_parity_read(io, levcur, waiting_map, waiting_mac);
	struct snapraid_worker* w = &io->reader_map[io->parity_base + *levcur];
	sim_tramp_event(EV_IO_GOT_PARITY, io->parity_base + *levcur, io->io_max > 1 ? (int)(t - w->task_map) : 0, t->state, t->position);
	return t;
}

static void t_io_parity_write(struct snapraid_io* io, unsigned* levcur, unsigned* waiting_map, unsigned* waiting_mac)
{
	o_io_parity_write(io, levcur, waiting_map, waiting_mac);
	sim_tramp_event(EV_IO_WROTE, io->reader_max + *levcur, 0, 0, 0);
}

static void t_io_write_next(struct snapraid_io* io, block_off_t blockcur, int skip, int* writer_error)
{
	unsigned slot = io->writer_index;
	sim_tramp_event(EV_IO_WNEXT, slot, blockcur, skip, 1); /* enter: the parity buffers of the slot are handed to the writers */
	o_io_write_next(io, blockcur, skip, writer_error);
	sim_tramp_event(EV_IO_WNEXT, slot, blockcur, skip, 0);
}

void __wrap_io_init(struct snapraid_io* io, struct snapraid_state* state,
	unsigned io_cache, unsigned buffer_max,
	void (*data_reader)(struct snapraid_worker*, struct snapraid_task*),
	struct snapraid_handle* handle_map, unsigned handle_max,
	void (*parity_reader)(struct snapraid_worker*, struct snapraid_task*),
	void (*parity_writer)(struct snapraid_worker*, struct snapraid_task*),
	struct snapraid_parity_handle* parity_handle_map, unsigned parity_handle_max)
{
	if (!sim_active) {
		__real_io_init(io, state, io_cache, buffer_max, data_reader, handle_map, handle_max, parity_reader, parity_writer, parity_handle_map, parity_handle_max);
		return;
	}

	o_data_reader = data_reader;
	o_parity_reader = parity_reader;
	o_parity_writer = parity_writer;

	__real_io_init(io, state, io_cache, buffer_max,
		data_reader ? t_data_reader : 0, handle_map, handle_max,
		parity_reader ? t_parity_reader : 0,
		parity_writer ? t_parity_writer : 0,
		parity_handle_map, parity_handle_max);

	o_io_start = io_start; io_start = t_io_start;
	o_io_stop = io_stop; io_stop = t_io_stop;
	o_io_read_next = io_read_next; io_read_next = t_io_read_next;
	o_io_data_read = io_data_read; io_data_read = t_io_data_read;
	o_io_parity_read = io_parity_read; io_parity_read = t_io_parity_read;
	o_io_parity_write = io_parity_write; io_parity_write = t_io_parity_write;
	o_io_write_next = io_write_next; io_write_next = t_io_write_next;
}
