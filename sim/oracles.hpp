// oracles.hpp - independent oracles shared by the families (DESIGN.md section 4)
#pragma once
#include "sandbox.hpp"
#include "model/contentfile.hpp"

// ---- log tags ------------------------------------------------------------
struct Tag {
	std::vector<std::string> f; // unescaped fields; f[0] is the tag name; the last field is the free text (may be empty)
	std::string raw;
};
std::vector<Tag> parse_tags(const std::string& log);
std::string tag_unescape(const std::string& s);
std::vector<const Tag*> tags_named(const std::vector<Tag>& tags, const std::string& name);
int64_t summary_value(const std::vector<Tag>& tags, const std::string& key, int64_t def = -1); // summary:<key>:<n>

// ---- content copies ------------------------------------------------------
struct LoadedContent {
	std::string rel;      // which copy
	Bytes raw;
	Content c;
	std::string err;      // decode error ("" = ok)
	bool present = false;
};
std::vector<LoadedContent> load_contents(const Sandbox& sb);
const LoadedContent* first_good(const std::vector<LoadedContent>& v);

// ---- stripe map ----------------------------------------------------------
struct StripeBlock {
	uint32_t map_idx;
	int file_idx;     // index in Content::files, -1 for a deleted block
	uint32_t block_idx;
	int state;        // BS_* or 0 for deleted
};
struct StripeMap {
	std::vector<std::vector<StripeBlock>> at; // per position
	std::vector<std::string> structural;     // violations of the map invariants
};
StripeMap build_stripes(const Content& c);
bool stripe_all_blk(const std::vector<StripeBlock>& s); // >= 1 file block, none deleted, all BLK

// ---- parity oracle (C06) -------------------------------------------------
struct ParityReport {
	std::vector<std::string> problems;       // C06 violations
	std::vector<std::string> hash_problems;  // recorded hash of a BLK/REP block != reference hash of the recorded version
	std::vector<std::string> unknown;        // recorded (path,size,stamp) never existed in the harness
	unsigned stripes_total = 0;
	unsigned stripes_synced = 0;             // all-BLK stripes checked against parity
	unsigned blocks_hashed = 0;
	std::vector<uint32_t> bad_parity_pos;    // positions that failed (any level)
};
// np_levels: number of configured parity levels; zmode from the config
ParityReport parity_ok(const Sandbox& sb, const Content& c, bool check_hashes = true);

// read the parity block of 'level' at 'pos' through the recorded split sizes; false if out of range
bool read_parity_block(const Sandbox& sb, const Content& c, int level, uint32_t pos, Bytes& out, std::string* where = nullptr);
// sandbox-relative parity file and offset of (level,pos) per the recorded sizes ("" if outside)
std::string parity_location(const Sandbox& sb, const Content& c, int level, uint32_t pos, uint64_t& off);

// block bytes (unpadded) of a recorded file from the version store; false if the version is unknown
// When several versions exist under the same (path,size,stamp) key the one whose block hashes to the recorded hash is
// taken (prev = the stripe still uses the previous hash kind); *matched tells whether such a version was found.
bool recorded_block(const Sandbox& sb, const Content& c, const CFile& f, uint32_t block_idx, Bytes& out, bool prev = false, bool* matched = nullptr);
std::shared_ptr<Bytes> recorded_version(const Sandbox& sb, const Content& c, const CFile& f);

extern "C" int ref_block_hash(char kind, const unsigned char* seed, const void* data, size_t size, unsigned char* digest);
Bytes ref_hash(const Content& c, const Bytes& block, bool prev = false);

// ---- write policy (C12) ----------------------------------------------------
// returns human readable breaches of the per-command write policy found in the trace
std::vector<std::string> write_policy_breaches(const Sandbox& sb, const CmdSpec& spec, const CmdResult& r);

// ---- fsync-before-rename ordering (C06/C07 mechanism) ---------------------
std::vector<std::string> fsync_order_breaches(const Sandbox& sb, const CmdResult& r);

// ---- buffer ownership / exactly-once monitor over the io.c hand-over trace (C13) ----
struct OwnershipReport {
	std::vector<std::string> breaches;
	std::vector<uint32_t> positions;   // stripes returned by io_read_next, in order
	unsigned worker_tasks = 0;
	unsigned io_max = 0;
	bool threaded = false;
	bool had_events = false;
	std::set<uint64_t> ring_states;    // distinct (reader lag vector) hashes
	unsigned ring_full = 0, main_waited_writer = 0;
};
OwnershipReport ownership_monitor(const CmdResult& r);
