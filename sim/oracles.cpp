// oracles.cpp - see oracles.hpp
#include "oracles.hpp"
#include "model/gf256.hpp"

// ------------------------------------------------------------------ tags

std::string tag_unescape(const std::string& s)
{
	std::string o;
	for (size_t i = 0; i < s.size(); ++i) {
		if (s[i] == '\\' && i + 1 < s.size()) {
			char c = s[++i];
			if (c == 'n') o += '\n';
			else if (c == 'r') o += '\r';
			else if (c == 'd') o += ':';
			else if (c == '\\') o += '\\';
			else { o += '\\'; o += c; }
		} else
			o += s[i];
	}
	return o;
}

std::vector<Tag> parse_tags(const std::string& log)
{
	std::vector<Tag> v;
	size_t b = 0;
	while (b < log.size()) {
		size_t e = log.find('\n', b);
		if (e == std::string::npos) e = log.size();
		std::string line = log.substr(b, e - b);
		b = e + 1;
		if (line.empty()) continue;
		Tag t;
		t.raw = line;
		size_t p = 0;
		for (;;) {
			size_t q = line.find(':', p);
			if (q == std::string::npos) { t.f.push_back(tag_unescape(line.substr(p))); break; }
			t.f.push_back(tag_unescape(line.substr(p, q - p)));
			p = q + 1;
		}
		v.push_back(t);
	}
	return v;
}

std::vector<const Tag*> tags_named(const std::vector<Tag>& tags, const std::string& name)
{
	std::vector<const Tag*> v;
	for (auto& t : tags) if (!t.f.empty() && t.f[0] == name) v.push_back(&t);
	return v;
}

int64_t summary_value(const std::vector<Tag>& tags, const std::string& key, int64_t def)
{
	for (auto& t : tags)
		if (t.f.size() >= 3 && t.f[0] == "summary" && t.f[1] == key) return strtoll(t.f[2].c_str(), 0, 10);
	return def;
}

// ------------------------------------------------------------------ content copies

std::vector<LoadedContent> load_contents(const Sandbox& sb)
{
	std::vector<LoadedContent> v;
	for (auto& rel : sb.cfg.content) {
		LoadedContent l;
		l.rel = rel;
		l.present = sb.get_file(rel, l.raw);
		if (l.present) l.err = content_decode(l.raw, l.c);
		else l.err = "absent";
		v.push_back(std::move(l));
	}
	return v;
}

const LoadedContent* first_good(const std::vector<LoadedContent>& v)
{
	for (auto& l : v) if (l.present && l.err.empty()) return &l;
	return nullptr;
}

// ------------------------------------------------------------------ stripes

StripeMap build_stripes(const Content& c)
{
	StripeMap m;
	m.at.resize(c.blockmax);
	for (size_t fi = 0; fi < c.files.size(); ++fi) {
		const CFile& f = c.files[fi];
		uint64_t nb = (f.size + c.block_size - 1) / c.block_size;
		if (f.blocks.size() != nb) m.structural.push_back(strf("file %s: %zu blocks mapped, %llu expected", f.sub.c_str(), f.blocks.size(), (unsigned long long)nb));
		for (size_t bi = 0; bi < f.blocks.size(); ++bi) {
			const CBlock& b = f.blocks[bi];
			if (bi > 0 && b.pos <= f.blocks[bi - 1].pos)
				m.structural.push_back(strf("file %s: position of block %zu (%u) not above block %zu (%u)", f.sub.c_str(), bi, b.pos, bi - 1, f.blocks[bi - 1].pos));
			if (b.pos >= c.blockmax) { m.structural.push_back(strf("file %s: block %zu at %u beyond blockmax %u", f.sub.c_str(), bi, b.pos, c.blockmax)); continue; }
			for (auto& o : m.at[b.pos])
				if (o.map_idx == f.map_idx)
					m.structural.push_back(strf("disk %s: position %u used twice (%s)", c.maps[f.map_idx].name.c_str(), b.pos, f.sub.c_str()));
			m.at[b.pos].push_back(StripeBlock{ f.map_idx, (int)fi, (uint32_t)bi, b.state });
		}
	}
	for (size_t mi = 0; mi < c.maps.size(); ++mi)
		for (auto& kv : c.maps[mi].deleted) {
			if (kv.first >= c.blockmax) continue;
			for (auto& o : m.at[kv.first])
				if (o.map_idx == mi)
					m.structural.push_back(strf("disk %s: position %u both deleted and used", c.maps[mi].name.c_str(), kv.first));
			m.at[kv.first].push_back(StripeBlock{ (uint32_t)mi, -1, 0, 0 });
		}
	// two maps on the same disk position
	for (size_t a = 0; a < c.maps.size(); ++a)
		for (size_t b = a + 1; b < c.maps.size(); ++b)
			if (c.maps[a].position == c.maps[b].position) m.structural.push_back("two disks at the same array position");
	return m;
}

bool stripe_all_blk(const std::vector<StripeBlock>& s)
{
	bool any = false;
	for (auto& b : s) {
		if (b.file_idx < 0) return false;
		if (b.state != BS_BLK) return false;
		any = true;
	}
	return any;
}

// ------------------------------------------------------------------ parity location

std::string parity_location(const Sandbox& sb, const Content& c, int level, uint32_t pos, uint64_t& off)
{
	uint64_t o = (uint64_t)pos * c.block_size;
	const CParity* p = nullptr;
	for (auto& q : c.parities) if ((int)q.level == level) p = &q;
	if (!p || !p->v3) {
		// single file, no recorded size
		off = o;
		return sb.cfg.parity_rel(level, 0);
	}
	for (size_t s = 0; s < p->splits.size() && (int)s < sb.cfg.splits[level]; ++s) {
		if (o < p->splits[s].size) { off = o; return sb.cfg.parity_rel(level, (int)s); }
		o -= p->splits[s].size;
	}
	return "";
}

bool read_parity_block(const Sandbox& sb, const Content& c, int level, uint32_t pos, Bytes& out, std::string* where)
{
	uint64_t off = 0;
	std::string rel = parity_location(sb, c, level, pos, off);
	if (where) *where = rel + strf("@%llu", (unsigned long long)off);
	if (rel.empty()) return false;
	Bytes all;
	if (!sb.get_file(rel, all)) return false;
	if (off + c.block_size > all.size()) return false;
	out.assign(all, off, c.block_size);
	return true;
}

std::shared_ptr<Bytes> recorded_version(const Sandbox& sb, const Content& c, const CFile& f)
{
	return sb.versions.get(c.maps[f.map_idx].name, f.sub, f.size, f.mtime_sec, f.mtime_nsec);
}

bool recorded_block(const Sandbox& sb, const Content& c, const CFile& f, uint32_t bi, Bytes& out, bool prev, bool* matched)
{
	const auto* vs = sb.versions.all(c.maps[f.map_idx].name, f.sub, f.size, f.mtime_sec, f.mtime_nsec);
	if (matched) *matched = false;
	if (!vs || vs->empty()) return false;
	uint64_t b = (uint64_t)bi * c.block_size;
	bool have = false;
	for (auto& v : *vs) {
		if (b > v->size()) continue;
		Bytes blk(*v, b, std::min<uint64_t>(c.block_size, v->size() - b));
		if (!have) { out = blk; have = true; }
		if (bi < f.blocks.size() && f.blocks[bi].state != BS_CHG) {
			Bytes h = ref_hash(c, blk, prev);
			if (!h.empty() && h == f.blocks[bi].hash) { out = blk; if (matched) *matched = true; return true; }
		}
	}
	return have;
}

Bytes ref_hash(const Content& c, const Bytes& block, bool prev)
{
	unsigned char d[16];
	char kind = prev ? c.prev_hash_kind : c.hash_kind;
	const Bytes& seed = prev ? c.prev_hash_seed : c.hash_seed;
	if (ref_block_hash(kind, (const unsigned char*)seed.data(), block.data(), block.size(), d) != 0) return Bytes();
	return Bytes((const char*)d, c.hash_size);
}

ParityReport parity_ok(const Sandbox& sb, const Content& c, bool check_hashes)
{
	ParityReport r;
	StripeMap sm = build_stripes(c);
	for (auto& s : sm.structural) r.problems.push_back("map: " + s);
	r.stripes_total = c.blockmax;
	unsigned bs = c.block_size;
	// cache parity files
	std::map<std::string, Bytes> pf;
	auto parity_bytes = [&](const std::string& rel) -> const Bytes& {
		auto it = pf.find(rel);
		if (it == pf.end()) {
			Bytes b;
			sb.get_file(rel, b);
			it = pf.emplace(rel, std::move(b)).first;
		}
		return it->second;
	};
	std::set<std::string> unknown_seen;
	for (uint32_t pos = 0; pos < c.blockmax; ++pos) {
		const auto& st = sm.at[pos];
		// hash check of every block with an updated hash
		if (check_hashes) {
			for (auto& b : st) {
				if (b.file_idx < 0 || b.state == BS_CHG) continue;
				const CFile& f = c.files[b.file_idx];
				Bytes blk;
				if (!recorded_block(sb, c, f, b.block_idx, blk)) {
					std::string k = c.maps[f.map_idx].name + ":" + f.sub;
					if (unknown_seen.insert(k).second)
						r.unknown.push_back(strf("%s size=%llu mtime=%lld.%d", k.c_str(), (unsigned long long)f.size, (long long)f.mtime_sec, f.mtime_nsec));
					continue;
				}
				bool rehash = c.info[pos].present && c.info[pos].rehash;
				bool matched = false;
				recorded_block(sb, c, f, b.block_idx, blk, rehash, &matched);
				Bytes h = ref_hash(c, blk, rehash);
				++r.blocks_hashed;
				// a REP block carries an inherited, not yet verified hash: only BLK must match
				if (b.state == BS_BLK && !h.empty() && !matched)
					r.hash_problems.push_back(strf("pos %u disk %s file %s block %u: recorded hash %s != reference %s", pos, c.maps[f.map_idx].name.c_str(), f.sub.c_str(), b.block_idx,
						hex(f.blocks[b.block_idx].hash.data(), f.blocks[b.block_idx].hash.size()).c_str(), hex(h.data(), h.size()).c_str()));
			}
		}
		if (!stripe_all_blk(st)) continue;
		if (!c.info[pos].present) r.problems.push_back(strf("pos %u: synced stripe without info", pos));
		// compute the expected parity
		bool known = true;
		std::vector<std::pair<int, Bytes>> data; // (disk column, padded block)
		for (auto& b : st) {
			const CFile& f = c.files[b.file_idx];
			Bytes blk;
			if (!recorded_block(sb, c, f, b.block_idx, blk, c.info[pos].present && c.info[pos].rehash)) {
				known = false;
				std::string k = c.maps[f.map_idx].name + ":" + f.sub;
				if (unknown_seen.insert(k).second)
					r.unknown.push_back(strf("%s size=%llu mtime=%lld.%d", k.c_str(), (unsigned long long)f.size, (long long)f.mtime_sec, f.mtime_nsec));
				continue;
			}
			blk.resize(bs, '\0');
			data.emplace_back((int)c.maps[f.map_idx].position, std::move(blk));
		}
		if (!known) continue;
		++r.stripes_synced;
		bool bad = false;
		for (int l = 0; l < sb.cfg.np; ++l) {
			Bytes expect(bs, '\0');
			for (auto& d : data) gf_mul_add((uint8_t*)&expect[0], (const uint8_t*)d.second.data(), bs, gen_coef(sb.cfg.zmode, l, d.first));
			uint64_t off = 0;
			std::string rel = parity_location(sb, c, l, pos, off);
			if (rel.empty()) { r.problems.push_back(strf("pos %u level %d: outside the recorded parity split sizes", pos, l)); bad = true; continue; }
			const Bytes& all = parity_bytes(rel);
			if (off + bs > all.size()) { r.problems.push_back(strf("pos %u level %d: parity file %s too short (%zu < %llu)", pos, l, rel.c_str(), all.size(), (unsigned long long)(off + bs))); bad = true; continue; }
			if (memcmp(all.data() + off, expect.data(), bs) != 0) {
				r.problems.push_back(strf("pos %u level %d: parity block at %s@%llu differs from generator over recorded data", pos, l, rel.c_str(), (unsigned long long)off));
				bad = true;
			}
		}
		if (bad) r.bad_parity_pos.push_back(pos);
	}
	return r;
}

// ------------------------------------------------------------------ write policy

static bool is_content_path(const Sandbox& sb, const std::string& p, bool allow_tmp, bool allow_lock)
{
	for (auto& c : sb.cfg.content) {
		if (p == c) return true;
		if (allow_tmp && p == c + ".tmp") return true;
		if (allow_lock && p == c + ".lock") return true;
	}
	return false;
}

static bool is_parity_path(const Sandbox& sb, const std::string& p)
{
	for (int l = 0; l < sb.cfg.np; ++l)
		for (int s = 0; s < sb.cfg.splits[l]; ++s)
			if (p == sb.cfg.parity_rel(l, s)) return true;
	return false;
}

static bool under_top(const std::string& p, const std::string& top)
{
	return starts_with(p, top + "/") || p == top;
}

static bool is_data_path(const Sandbox& sb, const std::string& p)
{
	for (auto& d : sb.cfg.disks)
		if (under_top(p, d.top)) return !is_content_path(sb, p, true, true);
	return false;
}

static bool mutating_event(const sim_ev& e)
{
	switch (e.kind) {
	case EV_OPEN: return (e.flags & EVF_MUT) != 0 && e.res >= 0;
	case EV_WRITE: case EV_PWRITE: case EV_FTRUNCATE: case EV_FALLOCATE: case EV_RENAME: case EV_REMOVE: case EV_RMDIR:
	case EV_MKDIR: case EV_LINK: case EV_SYMLINK: case EV_UTIME:
		return e.res >= 0;
	}
	return false;
}

std::vector<std::string> write_policy_breaches(const Sandbox& sb, const CmdSpec& spec, const CmdResult& r)
{
	std::vector<std::string> v;
	const std::string& cmd = spec.cmd;
	for (auto& e : r.trace) {
		if (!mutating_event(e)) continue;
		const std::string& p = r.path(e.path);
		std::string p2 = (e.kind == EV_RENAME) ? r.path((uint32_t)e.aux) : std::string();
		const std::string& target = e.kind == EV_RENAME ? p2 : p;
		bool ok = false;
		if (is_content_path(sb, target, false, true) && ends_with(target, ".lock")) ok = true; // the lock file
		else if (cmd == "status" || cmd == "diff" || cmd == "list" || cmd == "dup" || cmd == "check" || cmd == "devices" || cmd == "test-read" || cmd == "test-dry")
			ok = false;
		else if (cmd == "scrub" || cmd == "rehash" || cmd == "test-rewrite")
			ok = is_content_path(sb, target, true, false) && (e.kind != EV_RENAME || is_content_path(sb, p, true, false));
		else if (cmd == "sync")
			ok = (is_content_path(sb, target, true, false) || is_parity_path(sb, target)) && !is_data_path(sb, target);
		else if (cmd == "fix")
			ok = !is_content_path(sb, target, true, false) && (is_data_path(sb, target) || is_parity_path(sb, target));
		else if (cmd == "pool")
			ok = under_top(target, "pool");
		else if (cmd == "touch")
			ok = is_content_path(sb, target, true, false) || (e.kind == EV_UTIME && is_data_path(sb, target));
		else
			ok = false;
		if (!ok) v.push_back(strf("%s: %s %s%s%s", cmd.c_str(), ev_name(e.kind), p.c_str(), p2.empty() ? "" : " -> ", p2.c_str()));
	}
	return v;
}

// ------------------------------------------------------------------ fsync ordering

std::vector<std::string> fsync_order_breaches(const Sandbox& sb, const CmdResult& r)
{
	std::vector<std::string> v;
	std::set<std::string> dirty_parity, dirty_tmp;
	bool workers_running = false;
	for (auto& e : r.trace) {
		const std::string& p = r.path(e.path);
		if (e.kind == EV_IO_START) workers_running = e.off > 1;
		if (e.kind == EV_IO_STOP && e.off == 1) workers_running = false;
		if (e.kind == EV_PWRITE && e.res > 0 && is_parity_path(sb, p)) dirty_parity.insert(p);
		else if (e.kind == EV_WRITE && e.res > 0 && ends_with(p, ".tmp")) dirty_tmp.insert(p);
		else if (e.kind == EV_FSYNC && e.res == 0) { dirty_parity.erase(p); dirty_tmp.erase(p); }
		else if (e.kind == EV_RENAME && e.res == 0) {
			const std::string& to = r.path((uint32_t)e.aux);
			if (is_content_path(sb, to, false, false)) {
				if (dirty_tmp.count(p)) v.push_back("rename of " + p + " before its fsync");
				for (auto& d : dirty_parity)
					v.push_back("content " + to + " replaced while parity " + d + " has unflushed writes" + (workers_running ? " (write-behind threads still running: autosave)" : " (worker threads already stopped)"));
			}
		}
	}
	return v;
}

// ------------------------------------------------------------------ ownership monitor (C13)

OwnershipReport ownership_monitor(const CmdResult& r)
{
	OwnershipReport o;
	unsigned io_max = 0, readers = 0, writers = 0;
	uint32_t block_max = 0xffffffffu;
	// per (worker, slot)
	struct WS { int running = 0; int done_since_sched = 0; int main_owns = 0; int pending_write = 0; int ran_since_wnext = 0; };
	std::map<std::pair<int, int>, WS> ws;
	int main_slot = -1;          // slot main is consuming (between io_read_next exit and the next enter)
	int compute_slot = -1;       // slot whose parity buffers main is filling (until it hands them to the writers)
	bool active = false;
	int64_t last_pos = -1;
	std::map<int, int> running_by_tid; // worker -> slot currently running
	for (auto& e : r.trace) {
		switch (e.kind) {
		case EV_IO_START:
			io_max = (unsigned)e.off; readers = (unsigned)e.len; writers = (unsigned)e.res;
			block_max = (uint32_t)(e.aux & 0xffffffffu);
			o.io_max = io_max;
			o.threaded = io_max > 1;
			o.had_events = true;
			active = true;
			ws.clear();
			main_slot = -1;
			last_pos = -1;
			break;
		case EV_IO_STOP:
			if (e.off == 1) {
				// all threads joined: nothing may be running
				for (auto& kv : ws) if (kv.second.running) o.breaches.push_back(strf("worker %d still inside its callback on slot %d after io_stop", kv.first.first, kv.first.second));
				active = false;
			}
			break;
		case EV_IO_NEXT:
			if (!active) break;
			if (e.off < 0) {
				// enter: main releases the slot it was consuming
				if (main_slot >= 0) for (auto& kv : ws) if (kv.first.second == main_slot) kv.second.main_owns = 0;
				main_slot = -1;
				compute_slot = -1;
			} else {
				main_slot = (int)e.off;
				compute_slot = main_slot;
				if ((int64_t)e.len <= last_pos && !(e.len >= 0xffffffffu)) o.breaches.push_back(strf("io_read_next returned position %lld after %lld: not in increasing order", (long long)e.len, (long long)last_pos));
				last_pos = (int64_t)e.len;
				// the position past the end terminates the caller's loop: not a processed stripe
				if ((uint64_t)e.len < block_max) o.positions.push_back((uint32_t)e.len);
				if (o.threaded) {
					// the parity buffers of this slot are about to be recomputed: no writer may still use them
					for (unsigned w = readers; w < readers + writers; ++w) {
						WS& s = ws[{ (int)w, main_slot }];
						if (s.running) o.breaches.push_back(strf("main got slot %d for position %lld while writer %u is still writing from its buffer", main_slot, (long long)e.len, w));
						if (s.pending_write) o.breaches.push_back(strf("main got slot %d for position %lld while the write scheduled on it for writer %u has not run", main_slot, (long long)e.len, w));
					}
				}
			}
			break;
		case EV_IO_GOT_DATA:
		case EV_IO_GOT_PARITY: {
			if (!active || !o.threaded) break;
			int w = (int)e.off, s = (int)e.len;
			WS& st = ws[{ w, s }];
			if (st.running) o.breaches.push_back(strf("main received the task of reader %d slot %d while the reader is still inside its callback", w, s));
			if (main_slot >= 0 && s != main_slot) o.breaches.push_back(strf("main received a task of slot %d while consuming slot %d", s, main_slot));
			st.main_owns = 1;
			st.done_since_sched = 0;
			break;
		}
		case EV_IO_WNEXT: {
			if (!active || !o.threaded) break;
			int s = (int)e.off;
			if (e.aux == 1) {
				compute_slot = -1;
				if (e.res == 0) for (unsigned w = readers; w < readers + writers; ++w) { ws[{ (int)w, s }].pending_write = 1; }
			}
			break;
		}
		case EV_W_BEGIN: {
			if (!active) break;
			++o.worker_tasks;
			if (!o.threaded) break;
			int w = (int)e.off, s = (int)e.len;
			WS& st = ws[{ w, s }];
			if (st.running) o.breaches.push_back(strf("worker %d entered its callback twice on slot %d", w, s));
			if ((unsigned)w < readers) {
				if (st.main_owns) o.breaches.push_back(strf("reader %d starts reading into slot %d (position %lld) while the computing thread still uses that buffer", w, s, (long long)e.res));
				if (st.done_since_sched) o.breaches.push_back(strf("reader %d ran twice on slot %d before the caller consumed it", w, s));
			} else {
				if (!st.pending_write) o.breaches.push_back(strf("writer %d writes slot %d (position %lld) that was not scheduled", w, s, (long long)e.res));
				if (compute_slot == s) o.breaches.push_back(strf("writer %d writes from slot %d while the computing thread is filling it", w, s));
			}
			st.running = 1;
			running_by_tid[w] = s;
			break;
		}
		case EV_W_END: {
			if (!active || !o.threaded) break;
			int w = (int)e.off, s = (int)e.len;
			WS& st = ws[{ w, s }];
			if (!st.running) o.breaches.push_back(strf("worker %d left a callback it never entered on slot %d", w, s));
			st.running = 0;
			if ((unsigned)w < readers) st.done_since_sched = 1;
			else st.pending_write = 0;
			break;
		}
		}
	}
	return o;
}
