// family crash (C07, C09b, C06 at crash states): process death at every state-changing system call
// of sync / fix (before, after, torn write), and graceful stops at every I/O, each from the same
// restored pre-state under the same schedule.
#include <fcntl.h>
#include <unistd.h>
#include <sys/stat.h>
#include "run.hpp"

CmdSpec gen_sync_variant(Rng& rng, const Config& cfg);
std::vector<std::string> compare_with_synced(Exec& x, const Snap& want, bool allow_mtime_collision_rule);
RunPlan gen_history_to_synced(Rng& rng, const std::string& family, uint64_t seed, int tier, int max_disks);

namespace {

struct MutInfo {
	int kind = 0;
	std::string path, path2;
	bool content_tmp = false;   // write/fsync/open of a content .tmp
	bool content_rename = false;
	bool parity_resize = false;
	bool parity_write = false;
	bool is_write = false;      // write or pwrite (torn applies)
};

bool is_content_rel(const Sandbox& sb, const std::string& p, bool tmp)
{
	for (auto& c : sb.cfg.content) {
		if (!tmp && p == c) return true;
		if (tmp && p == c + ".tmp") return true;
	}
	return false;
}

bool is_parity_rel(const Sandbox& sb, const std::string& p)
{
	for (int l = 0; l < sb.cfg.np; ++l)
		for (int s = 0; s < sb.cfg.splits[(size_t)l]; ++s)
			if (p == sb.cfg.parity_rel(l, s)) return true;
	return false;
}

std::vector<MutInfo> mutation_table(const Sandbox& sb, const CmdResult& r)
{
	std::vector<MutInfo> t(r.info.mut_count + 1);
	for (auto& e : r.trace) {
		if (!(e.flags & EVF_MUT) || e.mut >= t.size()) continue;
		MutInfo& m = t[e.mut];
		m.kind = e.kind;
		m.path = r.path(e.path);
		if (e.kind == EV_RENAME) m.path2 = r.path((uint32_t)e.aux);
		m.content_tmp = is_content_rel(sb, m.path, true) && e.kind != EV_RENAME;
		m.content_rename = e.kind == EV_RENAME && is_content_rel(sb, m.path2, false);
		m.parity_resize = is_parity_rel(sb, m.path) && (e.kind == EV_FTRUNCATE || e.kind == EV_FALLOCATE || e.kind == EV_OPEN);
		m.parity_write = is_parity_rel(sb, m.path) && e.kind == EV_PWRITE;
		m.is_write = e.kind == EV_WRITE || e.kind == EV_PWRITE;
	}
	return t;
}

std::string first_lines(const std::string& s, size_t n = 300) { return s.substr(0, n); }

// every configured content copy that is present must be a complete file (valid checksum, decodes)
void check_content_copies_complete(Exec& x, const Snap& pre, const std::string& when, const Json& focus)
{
	for (auto& l : load_contents(x.sb)) {
		if (!l.present) {
			if (pre.count(l.rel)) x.violation("C09", "content-copy-vanished", when + ": " + l.rel + " existed before the command and is gone", focus);
			continue;
		}
		if (!l.err.empty()) x.violation("C09", "content-copy-incomplete", when + ": " + l.rel + " is neither the complete old nor a complete new version: " + l.err, focus);
	}
}

void check_copies_identical(Exec& x, const std::string& when, const Json& focus)
{
	Bytes first;
	std::string first_rel;
	for (auto& rel : x.sb.cfg.content) {
		Bytes b;
		if (!x.sb.get_file(rel, b)) { x.violation("C09", "content-copy-missing-after-success", when + ": " + rel + " absent after a successful save", focus); continue; }
		if (first_rel.empty()) { first = b; first_rel = rel; }
		else if (b != first) x.violation("C09", "content-copies-differ", when + ": " + rel + " differs from " + first_rel + " after a successful command that saved", focus);
	}
}

bool trace_saved_content(const Sandbox& sb, const CmdResult& r)
{
	for (auto& e : r.trace)
		if (e.kind == EV_RENAME && e.res == 0 && is_content_rel(sb, r.path((uint32_t)e.aux), false)) return true;
	return false;
}

// data part of a snapshot without tool files
Snap data_only(const Exec& x, const Snap& s)
{
	Snap o;
	std::set<std::string> tops;
	for (auto& t : x.sb.data_tops()) tops.insert(t);
	for (auto& kv : s) {
		std::string top = kv.first.substr(0, kv.first.find('/'));
		if (!tops.count(top)) continue;
		bool tool = false;
		for (auto& c : x.sb.cfg.content) if (kv.first == c || starts_with(kv.first, c + ".")) tool = true;
		if (!tool) o[kv.first] = kv.second;
	}
	return o;
}

} // namespace

// The sweep over one sync command.
static void op_crash_sync(Exec& x, const Json& op, int)
{
	CmdSpec spec = CmdSpec::from_json(op.at("spec"));
	bool additions_only = op.num("additions_only") != 0;
	int stride = (int)op.num("stride", 1);
	Snap pre = x.sb.snapshot_all();
	Snap pre_data = data_only(x, pre);
	int64_t pre_now = x.sb.now_s;
	unsigned pre_cmd_index = x.sb.cmd_index;
	auto reset = [&]() {
		x.sb.restore_all(pre);
		x.sb.now_s = pre_now;
		x.sb.cmd_index = pre_cmd_index; // same urandom stream / same out file names => same execution
	};

	// 1. reference execution
	x.monitors = true;
	CmdResult ref = x.cmd(spec);
	if (ref.exit_code != 0) { x.probe("crash.reference_failed"); reset(); return; }
	std::vector<MutInfo> mt = mutation_table(x.sb, ref);
	unsigned M = ref.info.mut_count;
	unsigned IO = ref.info.io_count;
	unsigned first_parity_write = 0, last_content_rename = 0;
	for (unsigned k = 1; k <= M; ++k) {
		if (mt[k].parity_write && !first_parity_write) first_parity_write = k;
		if (mt[k].content_rename) last_content_rename = k;
	}
	if (trace_saved_content(x.sb, ref)) check_copies_identical(x, "after successful sync", Json());
	x.probe("crash.sync_mutations", M);

	struct Case { unsigned k; int mode; bool sig; int signo; };
	std::vector<Case> cases;
	if (x.focused()) {
		const Json& f = x.focus();
		cases.push_back({ (unsigned)f.num("k"), (int)f.num("mode"), f.num("sig") != 0, (int)f.num("signo", 2) });
	} else {
		for (unsigned k = 1; k <= M; ++k) {
			bool window = mt[k].content_tmp || mt[k].content_rename || mt[k].parity_resize;
			bool pick = stride <= 1 || window || (k % (unsigned)stride) == (unsigned)(op.num("phase") % stride);
			if (!pick) continue;
			cases.push_back({ k, 0, false, 0 });
			cases.push_back({ k, 1, false, 0 });
			if (mt[k].is_write) cases.push_back({ k, 2, false, 0 });
		}
		int sstride = std::max(1, stride / 2);
		for (unsigned n = 1; n <= IO; ++n)
			if (sstride <= 1 || (n % (unsigned)sstride) == 0 || n == 1 || n == IO)
				cases.push_back({ n, 0, true, (n & 1) ? 2 : 15 });
	}

	unsigned ndev = (unsigned)x.sb.cfg.disks.size();
	for (auto& cs : cases) {
		bool shrunk_window = false; // the crash state showed the known "parity cut before the content save" shape
		reset();
		Json focus = Json::obj().set("k", cs.k).set("mode", cs.mode).set("sig", cs.sig ? 1 : 0).set("signo", cs.signo);
		CmdSpec s = spec;
		if (cs.sig) { s.sig_at_io = cs.k; s.sig_no = cs.signo; }
		else { s.kill_at = cs.k; s.kill_mode = cs.mode; }
		x.monitors = false;
		CmdResult r = x.cmd(s, false);
		x.monitors = true;
		++x.out.cases;
		std::string when = cs.sig ? strf("after signal %d at I/O %u", cs.signo, cs.k) : strf("after kill (%s) at mutation %u/%u [%s %s]", cs.mode == 0 ? "before" : cs.mode == 1 ? "after" : "torn", cs.k, M, ev_name(mt[cs.k].kind), mt[cs.k].path.c_str());
		if (r.harness_error || r.exit_code == SIM_EXIT_INTERNAL) { x.harness("crash sweep: " + std::string(r.info.note)); return; }
		if (r.exit_code == SIM_EXIT_DEADLOCK || r.exit_code == SIM_EXIT_STEPS) { x.violation("C13", "deadlock", when + ": " + r.info.note, focus); continue; }
		if (!cs.sig && !r.sim_killed) { x.probe("crash.kill_not_reached"); continue; }
		bool nontrivial = cs.sig ? r.info.signals_raised > 0 : (cs.k >= first_parity_write && first_parity_write && cs.k <= last_content_rename);
		if (nontrivial) { ++x.out.nontrivial_cases; x.out.case_hashes.insert(mix64(mix64(x.plan->seed, cs.k), (uint64_t)cs.mode * 2 + cs.sig)); }
		if (!cs.sig) {
			if (mt[cs.k].content_rename) x.probe("crash.kill_at_content_rename");
			if (mt[cs.k].content_tmp) x.probe("crash.kill_in_content_write");
			if (mt[cs.k].parity_resize) x.probe("crash.kill_in_parity_resize");
			if (mt[cs.k].parity_write && cs.mode == 2) x.probe("crash.torn_parity_block");
			if (cs.k > 1 && cs.k < M && mt[cs.k].content_rename && mt[cs.k + 1].content_rename && cs.mode == 1) x.probe("crash.kill_between_two_content_renames");
		} else if (r.info.signals_raised) {
			x.probe("crash.graceful_stop");
			if (r.exit_code != 0 && r.term_sig == 0) x.probe("crash.graceful_stop_exit_nonzero");
		}
		// write policy also holds for interrupted commands
		for (auto& b : write_policy_breaches(x.sb, s, r)) x.violation("C12", "write-policy", when + ": " + b, focus);

		// (a) no data file modified
		{
			Snap now = data_only(x, x.sb.snapshot(x.sb.data_tops()));
			std::string d = snap_diff(pre_data, now, true);
			if (!d.empty()) x.violation("C07", "data-modified-by-sync", when + ": " + d, focus);
		}
		// C09 (b): each copy complete old or complete new
		check_content_copies_complete(x, pre, when, focus);
		// after a graceful stop the command still saves: copies identical
		if (cs.sig && r.exit_code >= 0 && r.term_sig == 0 && trace_saved_content(x.sb, r) ) check_copies_identical(x, when, focus);
		// (c) parity invariant at the crash state
		{
			size_t before = x.out.viol.size();
			x.check_parity_invariant(when);
			// --force-realloc moves every file to a new position and is documented as "not having data protection during the
			// operation": the parity may be cut before the content that forgets the old positions is saved
			if (std::find(spec.opts.begin(), spec.opts.end(), std::string("-R")) != spec.opts.end()) {
				for (size_t i = x.out.viol.size(); i > before; --i)
					if (x.out.viol[i - 1].prop == "C06" && x.out.viol[i - 1].msg.find("too short") != std::string::npos) { x.out.viol.erase(x.out.viol.begin() + (long)(i - 1)); x.probe("crash.realloc_window_without_protection"); }
			}
			for (size_t i = before; i < x.out.viol.size(); ++i) {
				x.out.viol[i].focus = focus;
				// Known shape: sync shrinks the parity files before it saves the content that forgets the trailing
				// stripes. If every file of a "too short" stripe is gone from the data disks (the user deleted it,
				// which is why the parity shrinks), classify it separately: no existing file lost protection.
				if (x.out.viol[i].prop == "C06" && x.out.viol[i].msg.find("too short") != std::string::npos) {
					size_t pp = x.out.viol[i].msg.find(": pos ");
					uint32_t pos = pp == std::string::npos ? 0 : (uint32_t)strtoul(x.out.viol[i].msg.c_str() + pp + 6, 0, 10);
					bool all_gone = true;
					for (auto& l : load_contents(x.sb)) {
						if (!l.present || !l.err.empty() || pos >= l.c.blockmax) continue;
						StripeMap sm = build_stripes(l.c);
						for (auto& b : sm.at[pos]) {
							if (b.file_idx < 0) continue;
							const CFile& f = l.c.files[(size_t)b.file_idx];
							std::string rel = x.sb.disk(l.c.maps[f.map_idx].name)->top + "/" + f.sub;
							uint64_t sz; int64_t ms, mns;
							if (x.sb.stat_file(rel, sz, ms, mns) && sz == f.size && ms == f.mtime_sec && mns == f.mtime_nsec) all_gone = false;
						}
					}
					if (all_gone) { x.out.viol[i].cls = "parity-shrunk-before-content-save"; shrunk_window = true; }
				}
				// the same breach is also a C07 breach (no false protection after interruption)
				if (x.out.viol[i].prop == "C06" && (x.out.viol[i].cls == "parity-mismatch" || x.out.viol[i].cls == "parity-shrunk-before-content-save")) {
					Violation v = x.out.viol[i];
					v.prop = "C07";
					v.cls = x.out.viol[i].cls == "parity-mismatch" ? "synced-stripe-without-parity-after-interruption" : "parity-shrunk-before-content-save";
					x.out.viol.push_back(v);
				}
			}
		}
		// (b) a content file loads in every command
		{
			static const char* cmds[] = { "status", "diff", "list" };
			const char* cname = cmds[cs.k % 3];
			x.check_parity_every_cmd = false; // the crash state was judged just above
			CmdResult q = x.simple(cname);
			x.check_parity_every_cmd = true;
			bool ok = q.exit_code == 0 || (std::string(cname) == "diff" && q.exit_code == 2);
			if (!ok) x.violation("C07", "no-loadable-content-after-interruption", when + strf(": %s exit=%d: ", cname, q.exit_code) + first_lines(q.err), focus);
		}
		Snap crash_state;
		Snap pre_data_for_resync;
		bool undone = false;
		// --force-realloc is documented as "not having data protection during the operation": no recoverability demand
		bool realloc = std::find(spec.opts.begin(), spec.opts.end(), std::string("-R")) != spec.opts.end();
		bool want_d = additions_only && !realloc && x.have_synced && ndev > 0 && (cs.k % 4) == 0;
		if (want_d) crash_state = x.sb.snapshot_all();
		// between the interruption and the next sync the user may undo part of the pending changes: for a third of the cases
		// every file of the last clean sync that the pending changes had removed is put back (same bytes, same stamp, new inode)
		if (!additions_only && x.have_synced && (cs.k % 3) == 1) {
			Snap nowd = x.sb.snapshot(x.sb.data_tops());
			unsigned put = 0;
			for (auto& kv : x.synced) {
				if (kv.second.type != 'f' || nowd.count(kv.first)) continue;
				bool tool = false;
				for (auto& c : x.sb.cfg.content) if (kv.first == c || starts_with(kv.first, c + ".")) tool = true;
				if (tool) continue;
				// only where the path is free (a directory or link may have replaced a component)
				std::string parent = kv.first.substr(0, kv.first.rfind('/'));
				auto pit = nowd.find(parent);
				if (parent.find('/') != std::string::npos && (pit == nowd.end() || pit->second.type != 'd')) continue;
				if (x.sb.put_file(kv.first, kv.second.data, kv.second.mtime_s, kv.second.mtime_ns, true)) ++put;
			}
			if (put) x.probe("crash.deletions_undone_before_resync", put);
			pre_data_for_resync = data_only(x, x.sb.snapshot(x.sb.data_tops()));
			undone = put > 0;
		}
		// (e) sync again completes, then everything verifies
		{
			CmdSpec again;
			again.cmd = "sync";
			if (!additions_only) again.opts = { "-E", "-Z" }; // the same overrides the interrupted command had
			// an interrupted --force-realloc is completed by running it again (a plain sync would rightly ask for --force-full
			// when the interruption fell between the parity cut and the content save)
			if (std::find(spec.opts.begin(), spec.opts.end(), std::string("-R")) != spec.opts.end()) again.opts.push_back("-R");
			again.sched_seed = mix64(spec.sched_seed, cs.k);
			// after an undo the completing sync may be (rightly) refused, leaving the crash state judged above as it is
			bool keep = x.check_parity_every_cmd;
			if (undone) x.check_parity_every_cmd = false;
			CmdResult q = x.cmd(again);
			x.check_parity_every_cmd = keep;
			// (when the interruption had already cut the parity - the known shape - what the undo brings back sits on parity that
			// was regrown unwritten: judged once, below, through the check command)
			if (undone && q.exit_code == 0 && !shrunk_window) x.check_parity_invariant(when + " (resync after undo)");
			if (q.exit_code != 0 && undone && q.err.find("smaller than expected") != std::string::npos)
				// consequence of the known shape: the interrupted sync had already truncated the parity of the files whose deletion the
				// user then undid; sync rightly asks for --force-full
				x.violation("C07", "parity-shrunk-before-content-save", when + ": parity too short for the files put back after the interruption: sync again refuses without --force-full", focus);
			else if (q.exit_code != 0) x.violation("C07", "resync-failed", when + strf(": sync again exit=%d: ", q.exit_code) + first_lines(q.err), focus);
			else {
				Snap now = data_only(x, x.sb.snapshot(x.sb.data_tops()));
				std::string d = snap_diff(undone ? pre_data_for_resync : pre_data, now, true);
				if (!d.empty()) x.violation("C07", "data-modified-by-sync", when + " (resync): " + d, focus);
				if (trace_saved_content(x.sb, q)) check_copies_identical(x, when + " (resync)", focus);
				bool keep2 = x.check_parity_every_cmd;
				if (shrunk_window && undone) x.check_parity_every_cmd = false;
				struct Restore2 { Exec& x; bool v; ~Restore2() { x.check_parity_every_cmd = v; } } restore2{ x, keep2 };
				CmdResult c = x.simple("check");
				if (c.exit_code != 0 && shrunk_window && undone)
					// consequence of the known shape: the parity cut at the interruption is regrown (unwritten) for the files the user
					// put back, and a stripe whose new blocks hash to what parity "already covers" is not rewritten
					x.violation("C07", "parity-shrunk-before-content-save", when + strf(": check exit=%d after the completing sync: the parity that was too short at the interruption was regrown unwritten for the files put back", c.exit_code), focus);
				else if (c.exit_code != 0) x.violation("C07", "check-fails-after-resync", when + strf(": check exit=%d: ", c.exit_code) + first_lines(c.err), focus);
				CmdResult df = x.simple("diff");
				if (df.exit_code != 0) x.violation("C07", "diff-after-resync", when + strf(": diff exit=%d after the completing sync", df.exit_code), focus);
			}
		}
		// (d) additions only: files synced before stay recoverable from a single lost data disk
		if (want_d) {
			x.sb.restore_all(crash_state);
			unsigned dv = (cs.k / 4) % ndev;
			std::string top = x.sb.cfg.disks[dv].top;
			rm_rf(x.sb.abs(top));
			mkdir(x.sb.abs(top).c_str(), 0755);
			// a content copy on the lost disk is lost with it; keep at least one
			bool any = false;
			for (auto& rel : x.sb.cfg.content) if (x.sb.exists(rel)) any = true;
			if (any) {
				CmdSpec fix;
				fix.cmd = "fix";
				fix.sched_seed = mix64(spec.sched_seed, cs.k + 77);
				x.monitors = false;
				x.cmd(fix, false);
				x.monitors = true;
				// every file synced before the interrupted command must be back
				Snap now = x.sb.snapshot({ top });
				unsigned bad = 0;
				std::string ex;
				for (auto& kv : x.synced) {
					if (kv.first.substr(0, kv.first.find('/')) != top || kv.second.type != 'f') continue;
					bool tool = false;
					for (auto& c : x.sb.cfg.content) if (kv.first == c || starts_with(kv.first, c + ".")) tool = true;
					if (tool) continue;
					// only files that still were in the pre-state unchanged (additions only => all of them)
					auto it = now.find(kv.first);
					if (it == now.end() || it->second.data != kv.second.data) { ++bad; if (ex.empty()) ex = kv.first; }
				}
				x.probe("crash.recoverability_checked");
				std::string icmd = spec.cmd;
				for (auto& o : spec.opts) icmd += " " + o;
				if (bad) x.violation("C07", "synced-file-lost-after-interruption", when + strf(": hashsize=%d: after losing disk %s, %u previously synced files not recovered (e.g. %s) [interrupted command: %s ]", x.sb.cfg.hash_size, x.sb.cfg.disks[dv].name.c_str(), bad, ex.c_str(), icmd.c_str()), focus);
			}
		}
	}
	// leave the array in the completed state
	reset();
	x.cmd(spec);
	x.out.nontrivial = x.out.nontrivial_cases > 0;
	if (x.out.sample.type == Json::NUL) {
		Json smp = Json::obj();
		std::string c = spec.cmd;
		for (auto& o : spec.opts) c += " " + o;
		smp.set("family", "crash").set("seed", x.plan->seed).set("command", c).set("mutations", M).set("io_calls", IO).set("cases", (uint64_t)cases.size())
			.set("first_parity_write", first_parity_write).set("last_content_rename", last_content_rename).set("additions_only", additions_only);
		Json ex = Json::arr();
		for (unsigned k = 1; k <= M && ex.a.size() < 12; k += std::max(1u, M / 12)) ex.push(strf("%u:%s %s", k, ev_name(mt[k].kind), mt[k].path.c_str()));
		smp.set("mutation_samples", ex);
		x.out.sample = smp;
	}
}

// fix; kill at k; fix  ==  one uninterrupted fix
static void op_crash_fix(Exec& x, const Json& op, int)
{
	CmdSpec spec = CmdSpec::from_json(op.at("spec"));
	int stride = (int)op.num("stride", 1);
	Snap pre = x.sb.snapshot_all();
	int64_t pre_now = x.sb.now_s;
	unsigned pre_cmd_index = x.sb.cmd_index;
	auto reset = [&]() { x.sb.restore_all(pre); x.sb.now_s = pre_now; x.sb.cmd_index = pre_cmd_index; };
	// the array was damaged on purpose; a fix restricted by a filter (-m, -e, -d, -f) is not expected to repair all of it:
	// the parity oracle after each command would only re-report that damage
	bool saved_parity_oracle = x.check_parity_every_cmd;
	if (!spec.opts.empty()) x.check_parity_every_cmd = false;
	struct RestoreOracle { Exec& x; bool v; ~RestoreOracle() { x.check_parity_every_cmd = v; } } restore_oracle{ x, saved_parity_oracle };
	CmdResult ref = x.cmd(spec);
	unsigned M = ref.info.mut_count;
	Snap want = data_only(x, x.sb.snapshot(x.sb.data_tops()));
	std::vector<MutInfo> mt = mutation_table(x.sb, ref);
	x.probe("crash.fix_mutations", M);
	struct Case { unsigned k; int mode; };
	std::vector<Case> cases;
	if (x.focused()) cases.push_back({ (unsigned)x.focus().num("k"), (int)x.focus().num("mode") });
	else
		for (unsigned k = 1; k <= M; ++k) {
			if (stride > 1 && (k % (unsigned)stride) != (unsigned)(op.num("phase") % stride)) continue;
			cases.push_back({ k, 0 });
			cases.push_back({ k, 1 });
			if (mt[k].is_write) cases.push_back({ k, 2 });
		}
	for (auto& cs : cases) {
		reset();
		Json focus = Json::obj().set("k", cs.k).set("mode", cs.mode);
		CmdSpec s = spec;
		s.kill_at = cs.k;
		s.kill_mode = cs.mode;
		x.monitors = false;
		CmdResult r = x.cmd(s, false);
		x.monitors = true;
		++x.out.cases;
		if (r.harness_error || r.exit_code == SIM_EXIT_INTERNAL) { x.harness("crash fix sweep"); return; }
		if (!r.sim_killed) continue;
		++x.out.nontrivial_cases;
		x.out.case_hashes.insert(mix64(mix64(x.plan->seed, cs.k), 100 + (uint64_t)cs.mode));
		std::string fopts;
		for (auto& o : spec.opts) fopts += " " + o;
		std::string when = strf("fix%s killed (%s) at mutation %u/%u [%s %s]", fopts.c_str(), cs.mode == 0 ? "before" : cs.mode == 1 ? "after" : "torn", cs.k, M, ev_name(mt[cs.k].kind), mt[cs.k].path.c_str());
		for (auto& b : write_policy_breaches(x.sb, s, r)) x.violation("C12", "write-policy", when + ": " + b, focus);
		check_content_copies_complete(x, pre, when, focus);
		CmdSpec again = spec;
		again.sched_seed = mix64(spec.sched_seed, cs.k);
		CmdResult q = x.cmd(again);
		Snap now = data_only(x, x.sb.snapshot(x.sb.data_tops()));
		// same contents, links and directories; the mtime of a file may stay unrestored
		std::string d = snap_diff(want, now, false);
		if (!d.empty()) x.violation("C07", "fix-not-resumable", when + strf(": second fix (exit=%d) ends differently from an uninterrupted fix (exit=%d): ", q.exit_code, ref.exit_code) + d, focus);
		else {
			std::string dm = snap_diff(want, now, true);
			if (!dm.empty()) x.probe("crash.fix_mtime_left_unrestored");
		}
	}
	reset();
	x.cmd(spec);
	x.out.nontrivial = x.out.nontrivial_cases > 0;
}

static RunPlan gen_crash(uint64_t seed, int tier)
{
	Rng rng(seed);
	RunPlan p;
	p.family = "crash";
	p.seed = seed;
	p.cfg = gen_config(rng, 4, 6, true);
	if (rng.chance(1, 3)) p.cfg.autosave_at = (int)rng.range(1, 5);
	bool fixcase = rng.chance(1, 4);
	// base: small synced array
	for (auto& o : gen_populate(rng, p.cfg, 1, 3)) p.ops.push_back(o);
	CmdSpec base;
	base.cmd = "sync";
	base = gen_sched(rng, base);
	Json b = op_cmd(base, "ok");
	b.set("mark_synced", 1);
	p.ops.push_back(b);
	if (!fixcase) {
		bool additions_only = rng.chance(1, 2);
		if (additions_only) {
			int n = (int)rng.range(1, 4);
			for (int i = 0; i < n; ++i) {
				Json c = op_create(rng, p.cfg, -1, true);
				c.set("name", strf("new%d_", i) + c.str("name")); // never replaces an existing file
				p.ops.push_back(c);
			}
		} else {
			for (auto& o : gen_mutations(rng, p.cfg, (int)rng.range(2, 6))) p.ops.push_back(o);
			// a whole disk emptied (replaced, wiped): its freed blocks are only remembered by the content files the
			// interrupted sync writes
			if (p.cfg.disks.size() >= 2 && rng.chance(1, 5)) p.ops.push_back(Json::obj().set("k", "empty_disk").set("d", (int64_t)rng.below(p.cfg.disks.size())));
		}
		CmdSpec s = gen_sync_variant(rng, p.cfg);
		// kill-after-sync never saves: pointless here
		s.opts.erase(std::remove(s.opts.begin(), s.opts.end(), std::string("--test-kill-after-sync")), s.opts.end());
		if (!additions_only) { s.opts.push_back("-E"); s.opts.push_back("-Z"); }
		if (p.cfg.autosave_at > 0 && rng.chance(1, 2)) {
			// a lagging parity writer at the moment of an autosave is the interesting schedule
			s.policy = SP_STARVE;
			s.policy_param = 100 + (int)rng.below(p.cfg.np);
		}
		p.ops.push_back(Json::obj().set("k", "crash_sync").set("spec", s.to_json()).set("additions_only", additions_only ? 1 : 0)
			.set("stride", tier ? 1 : (int)rng.range(5, 9)).set("phase", (int)rng.below(9)));
	} else {
		p.ops.push_back(Json::obj().set("k", "c01_damage").set("seed", rng.next() >> 1).set("mode", (int)rng.below(2)).set("tries", rng.range(4, 20)).set("lose_content", 0));
		CmdSpec f;
		f.cmd = "fix";
		if (rng.chance(1, 4)) f.opts = { "-m" };
		f = gen_sched(rng, f);
		p.ops.push_back(Json::obj().set("k", "crash_fix").set("spec", f.to_json()).set("stride", tier ? 1 : (int)rng.range(3, 6)).set("phase", (int)rng.below(6)));
	}
	return p;
}

static struct RegCrash {
	RegCrash()
	{
		Exec::register_op("crash_sync", op_crash_sync);
		Exec::register_op("crash_fix", op_crash_fix);
		Family f;
		f.name = "crash";
		f.prop = "C07";
		f.level = "fault_enumeration";
		f.gen = gen_crash;
		register_family(f);
	}
} reg_crash;
