// which families decide which property, and with how many runs per tier
#include "run.hpp"


std::vector<CheckDef>& check_table()
{
	static std::vector<CheckDef> t = {
		{ "C01", "exploration", { { "recover", 3000, 60000 } },
		  "seeded configuration + sync history to a clean synced state, then a seeded damage set with <= N damaged blocks in every stripe (whole devices: any <= N of data disks and parity levels; "
		  "or per-stripe patterns: files deleted/truncated/extended, blocks flipped with the stamp restored, parity blocks damaged, links/dirs removed, content copies lost), then fix + check. "
		  "Non-trivial = at least one block of a used stripe was damaged; distinct = distinct (config, op sequence) hashes" },
		{ "C07", "fault_enumeration", { { "crash", 64, 800 } },
		  "per scenario (seeded array + pending changes + sync variant or damaged array + fix) the command runs once fault-free to count its M state-changing system calls; then the pre-state is restored and the "
		  "same schedule replayed with the process killed before / after / in the middle (torn write) of call k, and with SIGINT/SIGTERM raised at I/O call n. quick: every k inside the content save-verify-rename and parity "
		  "resize windows plus a stride elsewhere; thorough: every k. After each interruption: data unchanged, content copies complete, independent parity oracle, a command loads the state, sync again + check + diff, and for "
		  "additions-only scenarios recovery of previously synced files after losing a data disk. A case is non-trivial when the kill landed between the first parity write and the last content rename (or the signal was delivered)" },
		{ "C04", "fault_enumeration", { { "silent", 500, 3000 } },
		  "per seeded synced array the set of corruption targets (every block of every file incl. the last partial one, every parity block of every level of every used stripe) is enumerated; each target is damaged with a shape "
		  "from {1 bit, 1 byte, whole block, zeroing} (stamp restored), alone or 2-3 combined, and check -a / check / scrub -p full / scrub -p 100 must report exactly the right tags, fail, and (scrub) mark exactly the affected stripes bad "
		  "(decoded content + status -G); an undamaged control run per command must stay silent. quick samples 14 targets per array, thorough takes all targets x all shapes. Non-trivial = a case with at least one damaged block" },
		{ "C08", "fault_enumeration", { { "ioerr", 300, 2500 } },
		  "per scenario (pending changes + sync, or synced array + scrub -p full) the logical I/O targets are read off a fault-free trace: every (data file, block) read and every (parity level, position) read or written; each target fails once "
		  "with EIO (ENOSPC for a quarter of the parity writes), alone or in pairs, under io-cache depths {1,3,5,17,128} and seeded schedules. Judged: failing exit, diagnostic, summary:error_io, the hit stripe is not (synced and not bad) unless the "
		  "independent parity oracle shows its parity right, no other stripe gains false protection, the other stripes are processed, and fix -e + sync + scrub -p bad end clean. quick samples 8 targets x 2 depths per scenario (always incl. the first and the last two), thorough takes all x 5 depths. Non-trivial = the fault fired" },
		{ "C09", "fault_enumeration", { { "content-damage", 240, 120 }, { "crash", 8, 300 } },
		  "(a) content files produced by seeded histories (format 2 and 3, all record kinds, reduced hash sizes, deleted runs, bad marks) are damaged - single bit flips, byte substitutions {0x00,0xff,+1,-1}, truncation at a length, "
		  "random multi-byte damage - installed as the first copy and loaded by status/diff/list/check -a/sync/scrub under ASan+UBSan with stream buffers of 64K/4K/512/96 bytes: non-zero exit (abort counts), no sanitizer report, nothing modified. "
		  "quick: 120 sampled cases per file + the header/first record/crc boundaries; thorough: every bit, every byte x 4 substitutions, every truncation length. (b) the crash family kills sync/fix at every mutation inside the "
		  "save-verify-rename sequence: every present copy must be a complete file, and after a command that saved all copies are identical. Non-trivial = every damaged-load case and every kill that landed" },
		{ "C11", "exploration", { { "converge", 1500, 40000 } },
		  "seeded sequences of create/overwrite/append/truncate/delete/rename/move across disks/copy with stamp/touch/links/dirs/swap of two names/inode reuse between syncs, with and without UUIDs, all four scan orders, parallel or sequential disk scan under seeded schedules. "
		  "Before each sync diff must exit 2 exactly when the walk of the disks differs from the decoded content (path, size, stamp, link target; inode-only = don't care; empty dirs ignored) or the previous sync was incomplete; after a successful complete sync: every new/changed file was read "
		  "(trace), decoded content == disks incl. empty dirs, diff exits 0, list -l == disks, check exits 0. Non-trivial = a run with at least one successful complete sync judged; distinct = (config, op sequence) hashes" },
		{ "C13", "exploration", { { "sched", 2500, 60000 } },
		  "per seeded scenario (array with pending changes + sync variant, or scrub; optionally a data read EIO addressed by (disk, n-th read), a bandwidth limit (timer wake-ups) or an early SIGINT/SIGTERM) the command runs once without worker threads "
		  "(io cache 1, sequential scan) and then 6 (quick) / 16 (thorough) times with cache depth in {3,4,5,8,17,128}, signal inside/outside the mutex, parallel scan, under scheduling policies random / PCT priorities / round-robin / starve-one-worker / main-first / main-last / fifo "
		  "with spurious cond wake-ups: parity files, content file, error tag set, scan classification (add == copy), exit status and stripe order must equal the single-threaded result; the buffer ownership state machine runs over the io.c hand-over events of every threaded command; deadlock = no runnable thread, livelock = step bound. "
		  "Non-trivial = a threaded command with at least one real scheduling decision; distinct = distinct decision-sequence hashes" },
		{ "C12", "exploration", { { "footprint", 800, 20000 }, { "parity-inv", 300, 6000 }, { "recover", 200, 4000 }, { "crash", 8, 200 }, { "ioerr", 30, 600 }, { "converge", 150, 3000 }, { "silent", 40, 800 } },
		  "(1) the syscall-level write policy (command x call class x path class) is evaluated over the trace of every command of every family, including commands that end in errors or are killed; (2) the footprint family runs status/diff/list/dup/check "
		  "with filters/devices/scrub plans/touch/pool/fix with filters/sync variants/rehash on healthy, unsynced, damaged and partially lost arrays and diffs a byte+mtime+inode snapshot of data, parity, content and pool before/after each: read-only commands change "
		  "nothing, scrub only content, sync only content+parity, fix never content and only files/parity it reports, pool only the pool directory, touch only zero sub-second stamps. Non-trivial = every snapshot-judged command; distinct = (command line, run) hashes" },
		{ "C05", "exploration", { { "fixsafe", 12000, 200000 } },
		  "seeded histories that leave pending / replaced / deleted blocks behind: complete and -B partial syncs, sync killed after the parity update, syncs during which a file is touched / removed / truncated / appended / rewritten / unreadable (EIO, EACCES) exactly when sync "
		  "first opens it (concurrent-change and I/O faults addressed by file), further changes after the last sync; then damage without any per-stripe budget (devices lost, files deleted/truncated/extended, blocks flipped with the stamp restored, parity damaged) and fix with "
		  "random -m/-e/-b/-f/-d filters. Judged per recorded file against the harness version store (blocks selected by recorded hash): correct bytes, or reported unrecoverable with failing exit and counted; recovered => correct; nothing the log does not mention and no unknown file is written. "
		  "Non-trivial = a fix in which at least one file could be judged" },
		{ "C14", "exploration", { { "interlock", 1500, 30000 } },
		  "each trigger on a seeded synced array, alone or mixed with ordinary pending changes: all files of a disk missing / all rewritten (--force-empty), a non-empty file now empty (--force-zero), a parity file deleted or halved (--force-full), "
		  "blocksize or hashsize changed in the configuration, a recorded disk dropped from it. Refusal = non-zero exit with content and parity byte-identical (absent parity == empty); with the override (or the configuration restored) the sync proceeds, the parity oracle holds and diff is clean. "
		  "Lock: command A (sync/scrub/fix/check) is parked at mutation index k by the file layer (k=1,2 and seeded others; thorough 12 points), command B of every kind runs to completion as a second process, A resumes: whenever A's trace shows the lock held, B must fail with the 'already in use' diagnostic "
		  "and issue no mutating call, A ends as when alone, and B is not refused afterwards. Non-trivial = every trigger judged and every pair in which B ran while the lock was held" },
		{ "C15", "exploration", { { "scrubplan", 3000, 60000 } },
		  "per-stripe check times are produced by history on the simulated clock (waves of files synced days apart, within and across the 8 second granularity, ties, partial syncs and scrubs, a clock stepping backwards), bad marks by injected silent errors, unsynced stripes by files changed after the sync; "
		  "then scrub with plan bad / new / full / default / percentage with and without -o, and scrub -> fix -e -> scrub -p bad. The verified set V is read off the io.c hand-over trace. Predicates: bad in V for every plan; full = all stripes with info; new = exactly the never-scrubbed ones; "
		  "percentage: none younger than the age limit, |V minus bad| <= ceil(p*blockmax/100) (default ceil(blockmax/12), 10 days), oldest first, something verified when eligible; books: time refreshed to now and marks cleared exactly on stripes verified correct, bad exactly on silent errors, "
		  "stripes that only differ by files changed since the sync untouched, unverified stripes untouched, data and parity untouched; liveness: 13 default scrubs 11 days apart cover every used stripe. Non-trivial = a scrub that verified at least one stripe" },
		{ "C10", "exploration", { { "roundtrip", 1500, 30000 } },
		  "after every command of seeded histories (sync variants incl. partial / killed-after-parity / autosave, scrub, touch, hash migration, copy/move/undelete idioms, silent damage giving bad marks; hash sizes 16/8/4/2; formats 2 and 3) with the clock frozen: "
		  "(1) test-rewrite reproduces every content copy byte for byte; (2) the independent decoder's view (files with size/stamp/inode, links, per-stripe used/unsynced/bad/rehash/time) equals list -l and status -G -l; (3) loading from each copy alone gives the same dumps; "
		  "(4) content files synthesised by the independent encoder from a reached state with values at varint boundaries (inodes up to 2^64-1, seconds up to 2^63-1, nsec 0/invalid/999999999, free/total blocks up to 2^32-1, block runs moved to positions 127..2097152 giving long hole runs) are rewritten byte for byte - "
		  "part (4) is plain input generation, no schedule or fault is involved. Non-trivial = every reached state judged; distinct = distinct content file bytes" },
		{ "C20", "exploration", { { "views", 1500, 30000 } },
		  "recorded states reached by seeded histories (complete and partial syncs, scrubs giving bad marks, changes after the sync) with names containing spaces, tabs, newlines, carriage returns, colons, backslashes, quotes, glob characters, leading dashes and non-UTF-8 bytes, "
		  "duplicate groups of 2-4 files across disks, the same path on several disks, files with zero sub-second stamps, a pool directory pre-populated with stale links, empty directories and foreign files, with and without a share prefix. "
		  "list = recorded files/links with size and stamp (names compared after inverting the tag escaping); status counters and named files = decoded state; dup pairs = exactly the content-equality partition of non-empty fully hashed files computed from the harness copy (hash size 16, no migration); "
		  "pool tree = exactly one symlink per recorded file/link (first disk wins) with the right target, stale links and empty dirs gone, foreign files kept. Non-trivial = every recorded state judged; distinct = distinct content files" },
		{ "C19", "exploration", { { "decoy", 3000, 60000 } },
		  "decoys (same base name or same path on another disk, same size and time-stamp as a fully or partially hashed recorded file, other bytes: all random / one byte / only the last block) and honest cp -p copies appear on the same or other disks, with zero and non-zero sub-second stamps; "
		  "then sync plain / -h / -N / -B partial / killed after the parity update / single-threaded, repeated. Judged: the reference hash of every block recorded as synced equals the recorded hash and the independent parity oracle holds after every command; a decoy that the scan took for a copy is reported and fails the sync (complete syncs), "
		  "--force-nocopy inherits nothing, with --pre-hash the parity is not modified. Second half: a recorded file is lost while decoys sit on other disks and in an import directory (-i and --test-import-content; right name/size/stamp with wrong bytes, all-but-last-block right, honest copy under another name), parity possibly lost too, "
		  "then fix/check: the file gets exactly its recorded bytes or is reported unrecoverable (the C05 oracle, reported under C19). Non-trivial = a sync in which a decoy was taken for a copy, or a fix that judged a file" },
		{ "C16", "exploration", { { "golden", 3000, 60000 } },
		  "corpus /verif/golden: arrays written by the reference commit (built into this simulator by tools/mkgolden.sh; histories with holes, moved blocks, links, scrub info) for both hash kinds x levels 1-6 + z mode x {plain, split with limit, hash sizes 8/4/2, 4 KiB blocks} plus two hash vector arrays holding one file of every length 0..1100 with 2 KiB blocks. "
		  "The current code runs on them under seeded schedules, short reads and small stream buffers: check / check -a / scrub -p full must be clean (exit 0, no error line); up to np devices (or scattered blocks) are lost and fix must restore every byte (C01 oracle, reported as C16); after the current code saves the array again (scrub, sync after changes) "
		  "every untouched file keeps the hash, size, stamp and position recorded by the reference version and the header keeps hash kind/seed/size; always-on: independent decoder + pinned reference hashes + GF(2^8) parity oracle on every command. Non-trivial = verification or comparison of a reference array completed; distinct = (array, command) pairs" },
		{ "C17", "exploration", { { "split", 300, 6000 } },
		  "twin arrays over the same data directories: A with one parity file per level, B with 2-8 (quick 2-5) files per level limited by --test-parity-limit L (L not block aligned) or by per-device byte budgets enforced by the file layer (real ENOSPC from fallocate/ftruncate/pwrite, with and without --test-skip-fallocate). "
		  "Seeded histories grow and shrink the array across split boundaries; after each pair of syncs: recorded split sizes are block multiples, files at least that long, no used split after an empty one, sizes cover the array, concat(B splits truncated to recorded sizes) == A's parity on every used stripe of every level, "
		  "independent parity oracle through the split map (always on), documented refusal 'Insufficient parity space' leaves the content unchanged and the sync succeeds once the limit is lifted; fix after losing a split file or a data disk restores everything through the split map and check is clean. "
		  "Non-trivial = a round in which both twins synced with identical layouts and were compared; distinct = distinct content files of B" },
		{ "C06", "exploration", { { "parity-inv", 4000, 80000 }, { "crash", 16, 400 } },
		  "seeded histories of file-system changes interleaved with sync variants/scrub/fix/touch/rehash/check under seeded schedules; the independent parity oracle runs after every command. "
		  "A run is non-trivial when at least one fully synced stripe was compared with parity and >= 3 commands ran; distinct = distinct (config, op sequence) hashes" },
	};
	return t;
}
