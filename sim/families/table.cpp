// which families decide which property, and with how many runs per tier
#include "run.hpp"

struct CheckPart { std::string family; int quick; int thorough; };
struct CheckDef { std::string prop; std::string level; std::vector<CheckPart> parts; std::string rule; };

std::vector<CheckDef>& check_table()
{
	static std::vector<CheckDef> t = {
		{ "C06", "exploration", { { "parity-inv", 300, 10000 } },
		  "seeded histories of file-system changes interleaved with sync variants/scrub/fix/touch/rehash/check under seeded schedules; the independent parity oracle runs after every command. "
		  "A run is non-trivial when at least one fully synced stripe was compared with parity and >= 3 commands ran; distinct = distinct (config, op sequence) hashes" },
	};
	return t;
}
