// family footprint (C12): commands modify only what they are documented to modify. The syscall-level write policy
// runs in every command of every family; here every command/option combination runs on healthy, unsynced, damaged
// and partially lost arrays with a byte/mtime/inode snapshot before and after.
#include <fcntl.h>
#include <unistd.h>
#include <sys/stat.h>
#include "run.hpp"

CmdSpec gen_sync_variant(Rng& rng, const Config& cfg);

namespace {

bool is_content(const Sandbox& sb, const std::string& rel)
{
	for (auto& c : sb.cfg.content) if (rel == c || rel == c + ".tmp") return true;
	return false;
}
bool is_lock(const Sandbox& sb, const std::string& rel)
{
	for (auto& c : sb.cfg.content) if (rel == c + ".lock") return true;
	return false;
}
bool is_parity(const Sandbox& sb, const std::string& rel)
{
	for (int l = 0; l < sb.cfg.np; ++l)
		for (int s = 0; s < sb.cfg.splits[(size_t)l]; ++s) if (rel == sb.cfg.parity_rel(l, s)) return true;
	return false;
}
std::string data_disk_of(const Sandbox& sb, const std::string& rel)
{
	for (auto& d : sb.cfg.disks) if (starts_with(rel, d.top + "/")) return d.name;
	return "";
}

// changed paths between two snapshots: path -> what ("added","removed","content","mtime","inode")
std::map<std::string, std::string> changes(const Snap& a, const Snap& b)
{
	std::map<std::string, std::string> c;
	for (auto& kv : a) {
		auto it = b.find(kv.first);
		if (it == b.end()) { c[kv.first] = "removed"; continue; }
		const SnapNode& x = kv.second;
		const SnapNode& y = it->second;
		if (x.type != y.type) c[kv.first] = "type";
		else if (x.type != 'd' && x.data != y.data) c[kv.first] = "content";
		else if (x.type == 'f' && (x.mtime_s != y.mtime_s || x.mtime_ns != y.mtime_ns)) c[kv.first] = "mtime";
		else if (x.type == 'f' && x.vino != y.vino) c[kv.first] = "inode";
	}
	for (auto& kv : b) if (!a.count(kv.first)) c[kv.first] = "added";
	return c;
}

} // namespace

static void op_c12_cmd(Exec& x, const Json& op, int)
{
	CmdSpec spec = CmdSpec::from_json(op.at("spec"));
	Snap before = x.sb.snapshot_all();
	bool saved = x.check_parity_every_cmd;
	if (op.num("damaged")) x.check_parity_every_cmd = false;
	CmdResult r = x.cmd(spec);
	x.check_parity_every_cmd = saved;
	if (r.harness_error) { x.harness("c12"); return; }
	Snap after = x.sb.snapshot_all();
	std::map<std::string, std::string> ch = changes(before, after);
	std::vector<Tag> tags = parse_tags(r.log);
	std::string cl = spec.cmd;
	for (auto& o : spec.opts) cl += " " + o;
	cl += strf(" (exit %d)", r.exit_code);
	++x.out.cases;
	++x.out.nontrivial_cases;
	x.out.case_hashes.insert(mix64(hash_str(cl), mix64(x.plan->seed, x.out.cases)));
	x.probe("c12.cmd." + spec.cmd);
	if (r.exit_code != 0) x.probe("c12.commands_ending_in_error");

	// what fix reported as touched
	std::set<std::string> fixed_files;  // sandbox relative
	bool parity_fixed = false;
	for (auto& t : tags) {
		if (t.f.size() >= 4 && (t.f[0] == "fixed") ) {
			// fixed:<pos>:<disk>:<file>: ...  or fixed:<disk>:<file>: Fixed empty file
			const DiskCfg* d = x.sb.disk(t.f[2]);
			if (d && t.f.size() >= 5) fixed_files.insert(d->top + "/" + t.f[3]);
			const DiskCfg* d1 = x.sb.disk(t.f[1]);
			if (d1) fixed_files.insert(d1->top + "/" + t.f[2]);
		}
		if (t.f.size() >= 4 && t.f[0] == "status" && (t.f[1] == "recovered" || t.f[1] == "unrecoverable")) {
			const DiskCfg* d = x.sb.disk(t.f[2]);
			if (d) { fixed_files.insert(d->top + "/" + t.f[3]); if (t.f[1] == "unrecoverable") fixed_files.insert(d->top + "/" + t.f[3] + ".unrecoverable"); }
		}
		if (t.f.size() >= 3 && (t.f[0] == "hardlink_fixed" || t.f[0] == "symlink_fixed" || t.f[0] == "dir_fixed")) {
			const DiskCfg* d = x.sb.disk(t.f[1]);
			if (d) fixed_files.insert(d->top + "/" + t.f[2]);
		}
		if (t.f[0] == "parity_fixed") parity_fixed = true;
	}
	const std::string& c = spec.cmd;
	bool readonly = c == "status" || c == "diff" || c == "list" || c == "dup" || c == "check" || c == "devices";
	for (auto& kv : ch) {
		const std::string& p = kv.first;
		if (is_lock(x.sb, p)) continue;
		if (starts_with(p, "out/")) continue;
		bool ok = false;
		std::string dd = data_disk_of(x.sb, p);
		bool data = !dd.empty() && !is_content(x.sb, p);
		if (readonly) ok = false;
		else if (c == "scrub" || c == "rehash") ok = is_content(x.sb, p);
		else if (c == "sync") ok = is_content(x.sb, p) || is_parity(x.sb, p);
		else if (c == "pool") ok = starts_with(p, "pool/");
		else if (c == "touch") {
			if (is_content(x.sb, p)) ok = true;
			else if (data && kv.second == "mtime") {
				const SnapNode& a = before.at(p);
				const SnapNode& b = after.at(p);
				ok = a.mtime_ns == 0 && a.mtime_s == b.mtime_s && b.mtime_ns != 0;
				if (ok) x.probe("c12.touch_set_subsecond");
			}
		} else if (c == "fix") {
			if (is_content(x.sb, p)) ok = false;
			else if (is_parity(x.sb, p)) {
				// size changes by resize/truncate are allowed; content changes of existing blocks only when reported
				if (parity_fixed) ok = true;
				else {
					const Bytes& a = before.count(p) ? before.at(p).data : Bytes();
					const Bytes& b = after.count(p) ? after.at(p).data : Bytes();
					size_t n = std::min(a.size(), b.size());
					ok = memcmp(a.data(), b.data(), n) == 0;
				}
			} else if (data) {
				ok = fixed_files.count(p) != 0;
				// another name (hard link) of a file that fix reports
				if (!ok && after.count(p) && after.at(p).type == 'f')
					for (auto& ff : fixed_files) { auto it = after.find(ff); if (it != after.end() && it->second.type == 'f' && it->second.vino == after.at(p).vino) ok = true; }
				// directories created on the way to a restored file
				if (!ok && kv.second == "added" && after.at(p).type == 'd') {
					for (auto& f : fixed_files) if (starts_with(f, p + "/")) ok = true;
					// ... also when the fix was interrupted before it could report the file (the half written file is removed
					// again, the directory stays): the directory is part of the recorded tree
					if (!ok) {
						std::vector<LoadedContent> lcs = load_contents(x.sb);
						const LoadedContent* l = first_good(lcs);
						if (l) {
							auto under = [&](uint32_t mi, const std::string& sub) { const DiskCfg* d = x.sb.disk(l->c.maps[mi].name); return d && starts_with(d->top + "/" + sub, p + "/"); };
							for (auto& f : l->c.files) if (under(f.map_idx, f.sub)) ok = true;
							for (auto& f : l->c.links) if (under(f.map_idx, f.sub)) ok = true;
							for (auto& f : l->c.dirs) if (under(f.map_idx, f.sub) || (x.sb.disk(l->c.maps[f.map_idx].name) && x.sb.disk(l->c.maps[f.map_idx].name)->top + "/" + f.sub == p)) ok = true;
							if (ok) x.probe("c12.ancestor_dir_left_by_interrupted_fix");
						}
					}
				}
				// a recorded file that was missing and that fix started to re-create before it stopped on a fatal error (it then
				// reports nothing): creating the files the content records is what fix does; what they hold is C05's business
				if (!ok && kv.second == "added" && after.at(p).type == 'f' && r.exit_code != 0) {
					std::vector<LoadedContent> lcs = load_contents(x.sb);
					const LoadedContent* l = first_good(lcs);
					if (l) for (auto& f : l->c.files) { const DiskCfg* d = x.sb.disk(l->c.maps[f.map_idx].name); if (d && d->top + "/" + f.sub == p) ok = true; }
					if (ok) x.probe("c12.recorded_file_created_by_aborted_fix");
				}
				// a file renamed to .unrecoverable
				if (!ok && ends_with(p, ".unrecoverable") && fixed_files.count(p.substr(0, p.size() - 14))) ok = true;
				// ... and back: a fix that comes to a missing file whose .unrecoverable remains of an earlier attempt exist renames
				// them back before it works on the file (also when this run ends before it can report the file: -B, interruption)
				if (!ok && kv.second == "added" && before.count(p + ".unrecoverable") && !after.count(p + ".unrecoverable")) { ok = true; x.probe("c12.unrecoverable_renamed_back"); }
				if (!ok && kv.second == "removed" && ends_with(p, ".unrecoverable") && after.count(p.substr(0, p.size() - 14)) && !before.count(p.substr(0, p.size() - 14))) ok = true;
			}
		}
		if (!ok) x.violation("C12", "footprint", cl + ": " + kv.second + " " + p);
	}
}

static RunPlan gen_footprint(uint64_t seed, int tier)
{
	Rng rng(seed);
	RunPlan p;
	p.family = "footprint";
	p.seed = seed;
	p.cfg = gen_config(rng, 4, 4, true);
	p.cfg.pool = rng.chance(1, 2);
	for (auto& o : gen_populate(rng, p.cfg, 1, 5)) p.ops.push_back(o);
	// zero sub-second stamps for touch
	for (int i = 0; i < 2; ++i) { Json c = op_create(rng, p.cfg, -1, true); c.set("zns", 1); c.set("name", strf("zns%d", i)); p.ops.push_back(c); }
	// links are part of the recorded state
	if (rng.chance(1, 2)) {
		int64_t d = (int64_t)rng.below(p.cfg.disks.size());
		p.ops.push_back(Json::obj().set("k", "symlink").set("d", d).set("name", "links/sym").set("target", rng.chance(1, 2) ? "../zns0" : "nowhere"));
		p.ops.push_back(Json::obj().set("k", "hardlink").set("d", d).set("f", (int64_t)rng.below(8)).set("name", "links/hard"));
	}
	CmdSpec base;
	base.cmd = "sync";
	base = gen_sched(rng, base);
	p.ops.push_back(op_cmd(base, "ok"));
	if (rng.chance(1, 3)) p.ops.push_back(Json::obj().set("k", "c12_break_links").set("seed", rng.next() >> 1));
	int state = (int)rng.below(4); // healthy, unsynced, damaged, partially lost
	bool damaged = false;
	if (state == 1) for (auto& o : gen_mutations(rng, p.cfg, (int)rng.range(1, 6))) p.ops.push_back(o);
	if (state == 2) { p.ops.push_back(Json::obj().set("k", "c01_damage").set("seed", rng.next() >> 1).set("mode", 1).set("tries", rng.range(3, 12)).set("lose_content", 0)); damaged = true; }
	if (state == 3) { p.ops.push_back(Json::obj().set("k", "c01_damage").set("seed", rng.next() >> 1).set("mode", 0).set("lose_content", (int)rng.below(2))); damaged = true; }
	int n = (int)rng.range(4, tier ? 12 : 8);
	for (int i = 0; i < n; ++i) {
		CmdSpec s;
		switch (rng.below(14)) {
		case 0: s.cmd = "status"; if (rng.chance(1, 2)) s.opts = { "-G" }; break;
		case 1: s.cmd = "diff"; break;
		case 2: s.cmd = "list"; break;
		case 3: s.cmd = "dup"; break;
		case 4: s.cmd = "check"; if (rng.chance(1, 2)) s.opts = { "-a" }; break;
		case 5: s.cmd = "check"; s.opts = { "-f", rng.chance(1, 2) ? "dir/" : "*.txt" }; break;
		case 6: s.cmd = "check"; s.opts = { "-d", "d1" }; if (rng.chance(1, 2)) s.opts = { "-m" }; break;
		case 7: s.cmd = "devices"; break;
		case 8: s.cmd = "scrub"; s.opts = { "-p", rng.chance(1, 2) ? "full" : rng.chance(1, 2) ? "new" : "bad" }; break;
		case 9: s.cmd = "touch"; break;
		case 10: s.cmd = p.cfg.pool ? "pool" : "status"; break;
		case 11: s.cmd = "fix";
			if (rng.chance(1, 3)) { s.opts = { "-B", strf("%d", (int)rng.range(1, 6)) }; if (rng.chance(1, 2)) { s.opts.push_back("-S"); s.opts.push_back(strf("%d", (int)rng.range(0, 4))); } break; }
			if (rng.chance(1, 3)) s.opts = { "-m" }; else if (rng.chance(1, 3)) s.opts = { "-e" }; else if (rng.chance(1, 3)) s.opts = { "-f", "dir/" }; else if (rng.chance(1, 3)) s.opts = { "-d", Config::level_name((int)rng.below(p.cfg.np), false) }; break;
		case 12: s = gen_sync_variant(rng, p.cfg); break;
		default: s.cmd = "rehash"; break;
		}
		s = gen_sched(rng, s);
		// commands that end early (graceful stop at some I/O) have the same footprint rules
		if ((s.cmd == "fix" || s.cmd == "sync" || s.cmd == "scrub" || s.cmd == "check") && rng.chance(1, 5)) { s.sig_at_io = (unsigned)rng.range(1, 12); s.sig_no = rng.chance(1, 2) ? 2 : 15; }
		p.ops.push_back(Json::obj().set("k", "c12_cmd").set("spec", s.to_json()).set("damaged", damaged ? 1 : 0));
		if (rng.chance(1, 5)) for (auto& o : gen_mutations(rng, p.cfg, 2)) p.ops.push_back(o);
	}
	return p;
}

// recorded links differ on disk: a symlink re-pointed or deleted, a hard link deleted or replaced by an independent copy
static void op_c12_break_links(Exec& x, const Json& op, int)
{
	std::vector<LoadedContent> cs = load_contents(x.sb);
	const LoadedContent* lc = first_good(cs);
	if (!lc) return;
	Rng r((uint64_t)op.num("seed"));
	for (auto& l : lc->c.links) {
		const DiskCfg* d = x.sb.disk(lc->c.maps[l.map_idx].name);
		if (!d || r.chance(1, 3)) continue;
		std::string rel = d->top + "/" + l.sub;
		if (!x.sb.exists(rel)) continue;
		if (!l.hard) {
			if (r.chance(1, 2)) x.sb.remove_path(rel);
			else x.sb.make_symlink(rel, "elsewhere/" + l.to);
			x.probe("c12.symlink_broken");
		} else {
			Bytes b;
			bool have = x.sb.get_file(rel, b);
			x.sb.remove_path(rel);
			if (have && r.chance(1, 2)) { int64_t s, ns; x.sb.next_stamp(s, ns); x.sb.put_file(rel, b, s, ns, true); }
			x.probe("c12.hardlink_broken");
		}
	}
}

static void op_c12_note(Exec& x, const Json&, int)
{
	x.out.nontrivial = true;
}

static struct RegFootprint {
	RegFootprint()
	{
		Exec::register_op("c12_cmd", op_c12_cmd);
		Exec::register_op("c12_note", op_c12_note);
		Exec::register_op("c12_break_links", op_c12_break_links);
		Family f;
		f.name = "footprint";
		f.prop = "C12";
		f.level = "exploration";
		f.gen = gen_footprint;
		register_family(f);
	}
} reg_footprint;
