// family content-damage (C09a): a content file truncated at any length or altered in any bit/byte is never
// loaded: every command stops with an error, modifies nothing, and nothing memory-unsafe happens (run under
// ASan+UBSan).  The content files come from simulated histories (v2/v3, all record kinds).
#include <fcntl.h>
#include <unistd.h>
#include <sys/stat.h>
#include "run.hpp"

CmdSpec gen_sync_variant(Rng& rng, const Config& cfg);

static void op_c09_sweep(Exec& x, const Json& op, int)
{
	std::string first = x.sb.cfg.content[0];
	Bytes orig;
	if (!x.sb.get_file(first, orig) || orig.size() < 16) { x.probe("c09.no_content"); return; }
	Content oc;
	if (!content_decode(orig, oc).empty()) { x.harness("c09: pristine content does not decode"); return; }
	Snap pre = x.sb.snapshot_all();
	Rng r((uint64_t)op.num("seed"));
	int limit = (int)op.num("limit", 0);
	struct Case { int kind; uint64_t pos; int val; int cmd; unsigned stream; uint64_t seed; };
	std::vector<Case> cases;
	static const unsigned streams[] = { 0, 0, 4096, 512, 96 };
	auto pick_cmd = [&]() { return (int)r.below(6); };
	if (x.focused()) {
		const Json& f = x.focus();
		cases.push_back({ (int)f.num("kind"), (uint64_t)f.num("pos"), (int)f.num("val"), (int)f.num("cmd"), (unsigned)f.num("stream"), (uint64_t)f.num("seed") });
	} else {
		size_t n = orig.size();
		if (limit <= 0) {
			for (uint64_t i = 0; i < n * 8; ++i) cases.push_back({ 0, i, 0, pick_cmd(), streams[r.below(5)], 0 });
			for (uint64_t i = 0; i < n; ++i) {
				cases.push_back({ 1, i, 0x00, pick_cmd(), streams[r.below(5)], 0 });
				cases.push_back({ 1, i, 0xff, pick_cmd(), streams[r.below(5)], 0 });
				cases.push_back({ 1, i, -1, pick_cmd(), streams[r.below(5)], 0 }); // +1
				cases.push_back({ 1, i, -2, pick_cmd(), streams[r.below(5)], 0 }); // -1
			}
			for (uint64_t i = 0; i < n; ++i) cases.push_back({ 2, i, 0, pick_cmd(), streams[r.below(5)], 0 });
			for (int k = 0; k < 400; ++k) cases.push_back({ 3, r.below(n), 0, pick_cmd(), streams[r.below(5)], r.next() >> 1 });
		} else {
			for (int k = 0; k < limit; ++k) {
				int kind = (int)r.below(8);
				if (kind <= 2) cases.push_back({ 0, r.below(n * 8), 0, pick_cmd(), streams[r.below(5)], 0 });
				else if (kind <= 4) { static const int vals[] = { 0x00, 0xff, -1, -2 }; cases.push_back({ 1, r.below(n), vals[r.below(4)], pick_cmd(), streams[r.below(5)], 0 }); }
				else if (kind <= 6) cases.push_back({ 2, r.chance(1, 4) ? r.below(16) : r.below(n), 0, pick_cmd(), streams[r.below(5)], 0 });
				else cases.push_back({ 3, r.below(n), 0, pick_cmd(), streams[r.below(5)], r.next() >> 1 });
			}
			// the boundaries: header, first record, crc trailer, last byte
			for (uint64_t p : { (uint64_t)0, (uint64_t)11, (uint64_t)12, (uint64_t)(n - 5), (uint64_t)(n - 4), (uint64_t)(n - 1) })
				if (p < n) { cases.push_back({ 0, p * 8 + r.below(8), 0, pick_cmd(), 0, 0 }); cases.push_back({ 2, p, 0, pick_cmd(), 96, 0 }); }
		}
	}
	static const char* cmds[] = { "status", "diff", "list", "check", "sync", "scrub" };
	x.check_parity_every_cmd = false;
	for (auto& cs : cases) {
		Bytes d = orig;
		std::string what;
		switch (cs.kind) {
		case 0: d[(size_t)(cs.pos / 8)] = (char)(d[(size_t)(cs.pos / 8)] ^ (1 << (cs.pos % 8))); what = strf("bit %llu of byte %llu flipped", (unsigned long long)(cs.pos % 8), (unsigned long long)(cs.pos / 8)); break;
		case 1: {
			unsigned char o = (unsigned char)d[(size_t)cs.pos];
			unsigned char nv = cs.val == -1 ? (unsigned char)(o + 1) : cs.val == -2 ? (unsigned char)(o - 1) : (unsigned char)cs.val;
			if (nv == o) nv = (unsigned char)(o ^ 0x55);
			d[(size_t)cs.pos] = (char)nv;
			what = strf("byte %llu 0x%02x -> 0x%02x", (unsigned long long)cs.pos, o, nv);
			break;
		}
		case 2: d.resize((size_t)cs.pos); what = strf("truncated to %llu of %zu bytes", (unsigned long long)cs.pos, orig.size()); break;
		default: {
			Rng q(cs.seed);
			size_t len = 1 + q.below(24);
			for (size_t i = 0; i < len && cs.pos + i < d.size(); ++i) d[(size_t)cs.pos + i] = (char)q.below(256);
			if (d == orig) d[(size_t)cs.pos] = (char)(d[(size_t)cs.pos] ^ 1);
			what = strf("%zu random bytes at %llu", len, (unsigned long long)cs.pos);
			break;
		}
		}
		Json focus = Json::obj().set("kind", cs.kind).set("pos", cs.pos).set("val", cs.val).set("cmd", cs.cmd).set("stream", cs.stream).set("seed", cs.seed);
		write_file(x.sb.abs(first), d);
		Snap before = x.sb.snapshot_all();
		CmdSpec s;
		s.cmd = cmds[cs.cmd];
		if (s.cmd == "check") s.opts = { "-a" };
		s.stream_size = cs.stream;
		s.sched_seed = mix64(cs.pos, cs.cmd);
		CmdResult r1 = x.cmd(s, false);
		++x.out.cases;
		++x.out.nontrivial_cases;
		x.out.case_hashes.insert(mix64(hash_str(focus.dump()), x.plan->seed));
		std::string when = std::string(cmds[cs.cmd]) + strf(" (stream buffer %u) on content with ", cs.stream ? cs.stream : 65536) + what;
		if (r1.harness_error) { x.harness("c09 timeout: " + when); return; }
		if (r1.sanitizer()) x.violation("C09", "memory-unsafe", when + ": sanitizer report: " + r1.err.substr(0, 700), focus);
		else if (r1.term_sig && r1.term_sig != 6) x.violation("C09", "crash", when + strf(": killed by signal %d", r1.term_sig), focus);
		else if (r1.exit_code == 0) x.violation("C09", "damaged-content-loaded", when + ": the command ended with success", focus);
		else if (s.cmd == "diff" && r1.exit_code == 2) x.violation("C09", "damaged-content-loaded", when + ": diff loaded it and reported differences", focus);
		if (r1.term_sig == 6) x.probe("c09.abort");
		if (cs.stream) x.probe("c09.small_stream_buffer");
		// nothing modified (the lock file may be created)
		Snap after = x.sb.snapshot_all();
		for (auto it = after.begin(); it != after.end();) { if (ends_with(it->first, ".lock")) it = after.erase(it); else ++it; }
		for (auto it = before.begin(); it != before.end();) { if (ends_with(it->first, ".lock")) it = before.erase(it); else ++it; }
		std::string df = snap_diff(before, after, true);
		if (!df.empty()) x.violation("C09", "modified-with-damaged-content", when + ": " + df, focus);
		for (auto& b : write_policy_breaches(x.sb, s, r1))
			if (s.cmd != "sync" && s.cmd != "scrub") x.violation("C12", "write-policy", when + ": " + b, focus);
	}
	write_file(x.sb.abs(first), orig);
	x.sb.restore_all(pre);
	x.check_parity_every_cmd = true;
	x.out.nontrivial = x.out.nontrivial_cases > 0;
	Json smp = Json::obj();
	smp.set("family", "content-damage").set("seed", x.plan->seed).set("content_bytes", (uint64_t)orig.size()).set("version", oc.version).set("files", (uint64_t)oc.files.size())
		.set("links", (uint64_t)oc.links.size()).set("dirs", (uint64_t)oc.dirs.size()).set("cases", (uint64_t)cases.size());
	std::string ro(oc.record_order.begin(), oc.record_order.end());
	smp.set("record_kinds", ro.substr(0, 80));
	x.out.sample = smp;
}

// (b2) a copy other than the one that gets loaded has lost or gained bytes (or is gone): the tool notices the different
// length, and a successful sync - also one with nothing else to do - leaves every copy complete and identical again
static void op_c09_secondary(Exec& x, const Json& op, int)
{
	if (x.sb.cfg.content.size() < 2) return;
	Bytes orig;
	if (!x.sb.get_file(x.sb.cfg.content[0], orig) || orig.size() < 16) return;
	Snap pre = x.sb.snapshot_all();
	int64_t pre_now = x.sb.now_s;
	unsigned pre_idx = x.sb.cmd_index;
	Rng r((uint64_t)op.num("seed"));
	int n = (int)op.num("n", 4);
	x.check_parity_every_cmd = false;
	for (int k = 0; k < n; ++k) {
		x.sb.restore_all(pre);
		x.sb.now_s = pre_now;
		x.sb.cmd_index = pre_idx;
		size_t ci;
		int kind;
		uint64_t len;
		bool pending;
		if (x.focused()) { ci = (size_t)x.focus().num("copy"); kind = (int)x.focus().num("kind"); len = (uint64_t)x.focus().num("len"); pending = x.focus().num("pending") != 0; }
		else { ci = 1 + r.below(x.sb.cfg.content.size() - 1); kind = (int)r.below(3); len = kind == 0 ? r.below(orig.size()) : 1 + r.below(200); pending = r.chance(1, 3); }
		if (ci >= x.sb.cfg.content.size()) continue;
		Json focus = Json::obj().set("copy", (uint64_t)ci).set("kind", kind).set("len", len).set("pending", pending ? 1 : 0);
		std::string rel = x.sb.cfg.content[ci];
		Bytes d;
		if (!x.sb.get_file(rel, d)) continue;
		std::string what;
		switch (kind) {
		case 0: d.resize((size_t)std::min<uint64_t>(len, d.size() ? d.size() - 1 : 0)); write_file(x.sb.abs(rel), d); what = strf("%s truncated to %zu bytes", rel.c_str(), d.size()); break;
		case 1: d += gen_bytes(r.next(), (size_t)len); write_file(x.sb.abs(rel), d); what = strf("%s with %llu extra bytes", rel.c_str(), (unsigned long long)len); break;
		default: x.sb.remove_path(rel); what = rel + " deleted"; break;
		}
		if (pending) { int64_t s, ns; x.sb.next_stamp(s, ns); x.sb.put_file(x.sb.cfg.disks[0].top + "/c09_new_file", gen_bytes(r.next(), 1 + r.below(3000)), s, ns); }
		CmdSpec sy;
		sy.cmd = "sync";
		sy.sched_seed = r.next() >> 1;
		CmdResult r1 = x.cmd(sy, false);
		++x.out.cases;
		++x.out.nontrivial_cases;
		x.out.case_hashes.insert(mix64(hash_str(focus.dump()), x.plan->seed));
		std::string when = std::string("sync") + (pending ? " (one new file)" : " (nothing else to do)") + " with " + what;
		if (r1.harness_error) { x.harness("c09 secondary"); return; }
		if (r1.sanitizer()) { x.violation("C09", "memory-unsafe", when + ": sanitizer report: " + r1.err.substr(0, 700), focus); continue; }
		if (r1.exit_code != 0) { x.probe("c09.secondary_sync_failed"); continue; } // refusing is allowed; accepting obliges
		Bytes first;
		bool have = false;
		for (auto& c : x.sb.cfg.content) {
			Bytes b;
			if (!x.sb.get_file(c, b)) { x.violation("C09", "content-copy-missing-after-sync", when + ": " + c + " does not exist after the successful sync", focus); continue; }
			Content dc;
			if (!content_decode(b, dc).empty()) x.violation("C09", "content-copy-damaged-after-sync", when + ": " + c + " is not a complete content file after the successful sync", focus);
			if (!have) { first = b; have = true; } else if (b != first) x.violation("C09", "content-copies-differ", when + ": " + c + " differs from the first copy after the successful sync", focus);
		}
		x.probe("c09.secondary_copy_cases");
	}
	x.sb.restore_all(pre);
	x.sb.now_s = pre_now;
	x.sb.cmd_index = pre_idx;
	x.check_parity_every_cmd = true;
	x.out.nontrivial = x.out.nontrivial_cases > 0;
}

// (c) silent corruption of a write into a content ".tmp": the re-read + checksum verification must stop the save
static void op_c09_savefault(Exec& x, const Json& op, int)
{
	CmdSpec spec = CmdSpec::from_json(op.at("spec"));
	Snap pre = x.sb.snapshot_all();
	int64_t pre_now = x.sb.now_s;
	unsigned pre_idx = x.sb.cmd_index;
	auto reset = [&]() { x.sb.restore_all(pre); x.sb.now_s = pre_now; x.sb.cmd_index = pre_idx; };
	CmdResult ref = x.cmd(spec);
	// how many writes each .tmp receives
	std::map<std::string, int> writes;
	for (auto& e : ref.trace) if (e.kind == EV_WRITE && e.res > 0 && ends_with(ref.path(e.path), ".tmp")) writes[ref.path(e.path)]++;
	if (writes.empty()) { reset(); x.probe("c09.command_did_not_save"); return; }
	Rng r((uint64_t)op.num("seed"));
	struct Case { std::string path; int nth; };
	std::vector<Case> cases;
	if (x.focused()) cases.push_back({ x.focus().str("path"), (int)x.focus().num("nth") });
	else
		for (auto& kv : writes) {
			int per = (int)op.num("per_copy", 2);
			for (int k = 0; k < per; ++k) cases.push_back({ kv.first, (int)r.below((uint64_t)kv.second) });
		}
	bool saved = x.check_parity_every_cmd;
	for (auto& cs : cases) {
		reset();
		CmdSpec s = spec;
		Fault f;
		f.f.kind = FK_CORRUPT;
		f.f.opmask = OPC_WRITE;
		snprintf(f.f.path, sizeof(f.f.path), "%s", cs.path.c_str());
		f.f.nth = cs.nth;
		f.f.count = 1;
		s.faults.push_back(f);
		Json focus = Json::obj().set("path", cs.path).set("nth", cs.nth);
		x.check_parity_every_cmd = false;
		CmdResult r1 = x.cmd(s);
		x.check_parity_every_cmd = saved;
		++x.out.cases;
		if (r1.harness_error) { x.harness("c09 savefault"); return; }
		if (!r1.info.faults[0].fired) { x.probe("c09.savefault_not_reached"); continue; }
		++x.out.nontrivial_cases;
		x.out.case_hashes.insert(mix64(hash_str(focus.dump()), x.plan->seed));
		x.probe("c09.corrupt_write_cases");
		std::string when = spec.cmd + strf(" with write #%d into %s silently corrupted (exit %d)", cs.nth, cs.path.c_str(), r1.exit_code);
		// every copy must still be a complete file; a successful command leaves identical copies
		Bytes first;
		bool have_first = false;
		for (auto& l : load_contents(x.sb)) {
			if (!l.present) { if (pre.count(l.rel)) x.violation("C09", "content-copy-vanished", when + ": " + l.rel, focus); continue; }
			if (!l.err.empty()) x.violation("C09", "damaged-content-installed", when + ": " + l.rel + " is now a damaged file (" + l.err + ")", focus);
			if (r1.exit_code == 0) { if (!have_first) { first = l.raw; have_first = true; } else if (l.raw != first) x.violation("C09", "content-copies-differ", when + ": " + l.rel + " differs from the first copy after a successful command", focus); }
		}
		if (r1.exit_code == 0) x.probe("c09.corrupt_write_survived");
	}
	reset();
	x.cmd(spec);
	x.out.nontrivial = x.out.nontrivial_cases > 0;
}

static RunPlan gen_contentdamage(uint64_t seed, int tier)
{
	if ((seed % 4) == 0) {
		// save-path scenario
		Rng rng(seed);
		RunPlan p;
		p.family = "content-damage";
		p.seed = seed;
		p.cfg = gen_config(rng, 3, 4, false);
		p.cfg.autosave_at = 0;
		for (auto& o : gen_populate(rng, p.cfg, 1, 3)) p.ops.push_back(o);
		CmdSpec b;
		b.cmd = "sync";
		p.ops.push_back(op_cmd(gen_sched(rng, b), "ok"));
		for (auto& o : gen_mutations(rng, p.cfg, (int)rng.range(1, 3))) p.ops.push_back(o);
		CmdSpec s;
		switch (rng.below(4)) {
		case 0: s.cmd = "scrub"; s.opts = { "-p", "full" }; break;
		case 1: s.cmd = "touch"; break;
		default: s.cmd = "sync"; s.opts = { "-E", "-Z" }; break;
		}
		p.ops.push_back(Json::obj().set("k", "c09_savefault").set("spec", gen_sched(rng, s).to_json()).set("seed", rng.next() >> 1).set("per_copy", tier ? 6 : 2));
		return p;
	}
	Rng rng(seed);
	RunPlan p;
	p.family = "content-damage";
	p.seed = seed;
	p.cfg = gen_config(rng, 4, 6, true);
	if (rng.chance(1, 3)) p.cfg.hash_size = rng.chance(1, 2) ? 4 : 2;
	for (auto& o : gen_populate(rng, p.cfg, 0, 4)) p.ops.push_back(o);
	int rounds = (int)rng.range(1, 3);
	for (int r = 0; r < rounds; ++r) {
		CmdSpec s = gen_sync_variant(rng, p.cfg);
		p.ops.push_back(op_cmd(s));
		for (auto& o : gen_mutations(rng, p.cfg, (int)rng.range(1, 5))) p.ops.push_back(o);
	}
	if (rng.chance(1, 3)) { CmdSpec s; s.cmd = "sync"; s.opts = { "-B", "2" }; p.ops.push_back(op_cmd(gen_sched(rng, s))); }
	if (rng.chance(1, 3)) { CmdSpec s; s.cmd = "scrub"; s.opts = { "-p", "50", "-o", "0" }; p.ops.push_back(op_cmd(gen_sched(rng, s))); }
	// the sweep wants whatever state the history left; the secondary-copy cases want a state a plain sync accepts
	p.ops.push_back(Json::obj().set("k", "c09_sweep").set("seed", rng.next() >> 1).set("limit", tier ? 0 : 120));
	{ CmdSpec s; s.cmd = "sync"; s.opts = { "-E", "-Z" }; p.ops.push_back(op_cmd(gen_sched(rng, s))); }
	p.ops.push_back(Json::obj().set("k", "c09_secondary").set("seed", rng.next() >> 1).set("n", tier ? 24 : 6));
	return p;
}

static struct RegContentDamage {
	RegContentDamage()
	{
		Exec::register_op("c09_sweep", op_c09_sweep);
		Exec::register_op("c09_savefault", op_c09_savefault);
		Exec::register_op("c09_secondary", op_c09_secondary);
		Family f;
		f.name = "content-damage";
		f.prop = "C09";
		f.level = "fault_enumeration";
		f.gen = gen_contentdamage;
		f.san = true;
		register_family(f);
	}
} reg_contentdamage;
