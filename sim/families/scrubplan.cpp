// family scrubplan (C15): scrub verifies exactly the stripes its plan selects and keeps honest books.
// The per-stripe ages come from history (syncs and scrubs at chosen simulated times), never from editing content files.
// The set of verified stripes is taken from the hand-over trace (positions returned by io_read_next), not from scrub's report.
#include <fcntl.h>
#include <unistd.h>
#include <sys/stat.h>
#include "run.hpp"

namespace {

struct StripeTruth {
	bool used = false;      // has info
	bool silent = false;    // a synced block whose bytes on disk do not hash to the recorded hash (stamp unchanged)
	bool changed = false;   // a block of a file missing or with another size/stamp than recorded, or not yet synced
};

std::vector<StripeTruth> truth(const Exec& x, const Content& c)
{
	std::vector<StripeTruth> t(c.blockmax);
	for (uint32_t p = 0; p < c.blockmax; ++p) t[p].used = c.info[p].present;
	for (auto& f : c.files) {
		const DiskCfg* d = x.sb.disk(c.maps[f.map_idx].name);
		std::string rel = d ? d->top + "/" + f.sub : "";
		uint64_t sz = 0; int64_t ms = 0, mns = 0;
		bool there = d && x.sb.stat_file(rel, sz, ms, mns);
		bool same = there && sz == f.size && ms == f.mtime_sec && mns == f.mtime_nsec;
		Bytes data;
		if (same) x.sb.get_file(rel, data);
		for (size_t bi = 0; bi < f.blocks.size(); ++bi) {
			uint32_t p = f.blocks[bi].pos;
			if (p >= c.blockmax) continue;
			if (!same || f.blocks[bi].state != BS_BLK) { t[p].changed = true; continue; }
			uint64_t off = (uint64_t)bi * c.block_size;
			Bytes blk = data.substr((size_t)off, (size_t)std::min<uint64_t>(c.block_size, data.size() - off));
			Bytes h = ref_hash(c, blk, c.info[p].present && c.info[p].rehash);
			if (!h.empty() && h != f.blocks[bi].hash) t[p].silent = true;
		}
	}
	for (auto& m : c.maps) for (auto& kv : m.deleted) if (kv.first < c.blockmax) t[kv.first].changed = true;
	return t;
}

} // namespace

static void op_c15_scrub(Exec& x, const Json& op, int)
{
	std::vector<LoadedContent> cs = load_contents(x.sb);
	const LoadedContent* lc = first_good(cs);
	if (!lc || lc->c.blockmax == 0) { x.probe("c15.no_array"); return; }
	Content c0 = lc->c;
	bool any_info = false;
	for (auto& i : c0.info) if (i.present) any_info = true;
	if (!any_info) { x.probe("c15.no_info"); return; }
	std::vector<StripeTruth> tr = truth(x, c0);
	// the tool keeps check times with 8 second granularity and truncates times in the future to "now" when it saves:
	// compare times under that normalisation
	auto norm = [&](Content& c, int64_t now_) { for (auto& i : c.info) if (i.present) i.time = (uint32_t)std::min<int64_t>(i.time, now_) & ~7u; };
	// the plan itself works on the times as stored: a check time in the future (the clock stepped back) is not "older than"
	// anything until the clock catches up
	std::vector<uint32_t> stored_time(c0.blockmax, 0);
	for (uint32_t p = 0; p < c0.blockmax && p < c0.info.size(); ++p) stored_time[p] = c0.info[p].time & ~7u; // (kept with 8 second granularity once loaded)
	norm(c0, x.sb.now_s);
	std::string plan = op.str("plan"); // "", "full", "new", "bad", or a number
	int64_t older = op.num("older", -1);
	CmdSpec s;
	s.cmd = "scrub";
	if (!plan.empty()) { s.opts.push_back("-p"); s.opts.push_back(plan); }
	if (older >= 0) { s.opts.push_back("-o"); s.opts.push_back(strf("%lld", (long long)older)); }
	s.sched_seed = (uint64_t)op.num("seed", 1);
	s.policy = (int)(s.sched_seed % 7);
	Snap before = x.sb.snapshot_all();
	int64_t now = x.sb.now_s;
	bool saved = x.check_parity_every_cmd;
	x.check_parity_every_cmd = false; // silent damage is deliberate here
	CmdResult r = x.cmd(s);
	x.check_parity_every_cmd = saved;
	if (r.harness_error) { x.harness("c15"); return; }
	++x.out.cases;
	std::string cl = "scrub";
	for (auto& o : s.opts) cl += " " + o;
	cl += strf(" at t=%lld (exit %d)", (long long)now, r.exit_code);
	if (r.exit_code >= 90 || r.term_sig) return;
	OwnershipReport own = ownership_monitor(r);
	std::set<uint32_t> V(own.positions.begin(), own.positions.end());
	std::vector<LoadedContent> as = load_contents(x.sb);
	const LoadedContent* la = first_good(as);
	if (!la) { x.violation("C15", "no-content-after-scrub", cl); return; }
	Content c1 = la->c;
	norm(c1, now);
	if (c1.blockmax != c0.blockmax) { x.violation("C15", "scrub-changed-geometry", cl); return; }
	uint32_t n = c0.blockmax;
	auto is_bad0 = [&](uint32_t p) { return c0.info[p].present && c0.info[p].bad; };

	// ---- what was verified
	for (uint32_t p = 0; p < n; ++p) {
		if (V.count(p) && !c0.info[p].present) x.violation("C15", "verified-unused-stripe", cl + strf(": stripe %u has no info and was verified", p));
		if (is_bad0(p) && !V.count(p)) x.violation("C15", "bad-stripe-not-verified", cl + strf(": stripe %u is marked bad and was not verified", p));
	}
	std::set<uint32_t> VN; // verified and not bad before
	for (auto p : V) if (!is_bad0(p)) VN.insert(p);
	bool numeric = plan.empty() || (plan[0] >= '0' && plan[0] <= '9');
	if (plan == "full") {
		for (uint32_t p = 0; p < n; ++p) if (c0.info[p].present && !V.count(p)) x.violation("C15", "full-plan-skipped-stripe", cl + strf(": stripe %u not verified", p));
		x.probe("c15.plan_full");
	} else if (plan == "bad") {
		if (!VN.empty()) x.violation("C15", "bad-plan-verified-healthy", cl + strf(": %zu stripes not marked bad were verified", VN.size()));
		x.probe("c15.plan_bad");
	} else if (plan == "new") {
		for (uint32_t p = 0; p < n; ++p) {
			bool js = c0.info[p].present && c0.info[p].justsynced && !is_bad0(p);
			if (js && !V.count(p)) x.violation("C15", "new-plan-skipped-stripe", cl + strf(": never scrubbed stripe %u not verified", p));
			if (!js && VN.count(p)) x.violation("C15", "new-plan-verified-old", cl + strf(": stripe %u was already scrubbed and was verified", p));
		}
		x.probe("c15.plan_new");
	} else if (numeric) {
		uint64_t pct = plan.empty() ? 0 : strtoull(plan.c_str(), 0, 10);
		uint64_t quota = plan.empty() ? ((uint64_t)n + 11) / 12 : ((uint64_t)n * pct + 99) / 100;
		int64_t age = older >= 0 ? older : 10;
		int64_t limit = now - age * 86400;
		if (VN.size() > quota) x.violation("C15", "percentage-plan-over-quota", cl + strf(": %zu healthy stripes verified, quota %llu of %u", VN.size(), (unsigned long long)quota, n));
		uint32_t newest_verified = 0;
		for (auto p : VN) {
			if ((int64_t)stored_time[p] > limit) x.violation("C15", "percentage-plan-too-young", cl + strf(": stripe %u checked at %u is younger than the age limit %lld", p, stored_time[p], (long long)limit));
			newest_verified = std::max(newest_verified, stored_time[p]);
		}
		unsigned eligible = 0;
		for (uint32_t p = 0; p < n; ++p) {
			if (!c0.info[p].present || is_bad0(p)) continue;
			if ((int64_t)stored_time[p] <= limit) ++eligible;
			if (!V.count(p) && !VN.empty() && stored_time[p] < newest_verified && (int64_t)stored_time[p] <= limit)
				x.violation("C15", "percentage-plan-not-oldest-first", cl + strf(": stripe %u (checked at %u) was skipped while a younger one (checked at %u) was verified", p, stored_time[p], newest_verified));
		}
		unsigned nbad = 0;
		for (uint32_t p = 0; p < n; ++p) if (is_bad0(p)) ++nbad;
		if (eligible > 0 && quota > 0 && VN.empty())
			x.violation("C15", "percentage-plan-verified-nothing", cl + strf(": %u eligible stripes, quota %llu, nothing verified", eligible, (unsigned long long)quota) + (nbad >= quota ? " [the quota was consumed by stripes already marked bad]" : ""));
		else if (eligible > VN.size() && quota > VN.size() + nbad && VN.size() < eligible && VN.size() < quota) {
			// fewer than the quota although more were eligible: only legal when ties at the time limit would overshoot
		}
		if (!VN.empty() && VN.size() < n) x.probe("c15.partial_selection");
		x.probe("c15.plan_percentage");
	}

	// ---- honest books
	uint32_t now8 = (uint32_t)now & ~7u;
	for (uint32_t p = 0; p < n; ++p) {
		const CInfo& a = c0.info[p];
		const CInfo& b = c1.info[p];
		bool same = a.present == b.present && a.time == b.time && a.bad == b.bad && a.justsynced == b.justsynced && a.rehash == b.rehash;
		if (!V.count(p)) {
			if (!same) x.violation("C15", "unverified-stripe-info-changed", cl + strf(": stripe %u was not verified but its info changed", p));
			continue;
		}
		if (tr[p].changed) {
			// differences caused by files changed since the sync: neither marked nor refreshed
			if (!tr[p].silent && b.bad && !a.bad) x.violation("C15", "unsynced-change-marked-bad", cl + strf(": stripe %u only differs because of files changed since the sync and was marked bad", p));
			// (a stripe whose data still verifies - e.g. a file that was only touched - may be refreshed)
			x.probe("c15.stripes_with_changed_files_verified");
			continue;
		}
		if (tr[p].silent) {
			if (!b.bad) x.violation("C15", "silent-error-not-marked", cl + strf(": stripe %u has a silent error and is not marked bad", p));
			if (b.time != a.time) x.violation("C15", "bad-stripe-refreshed", cl + strf(": stripe %u has a silent error and its check time was refreshed", p));
			x.probe("c15.silent_errors_marked");
		} else {
			if (b.bad) x.violation("C15", "healthy-stripe-marked-bad", cl + strf(": stripe %u verified correct and is marked bad", p));
			if (b.justsynced) x.violation("C15", "justsynced-not-cleared", cl + strf(": stripe %u verified correct and still flagged never-scrubbed", p));
			if (b.time != now8) x.violation("C15", "time-not-refreshed", cl + strf(": stripe %u verified correct at %u and its check time is %u", p, now8, b.time));
			if (a.bad) x.probe("c15.bad_mark_cleared");
		}
	}
	// parity and data untouched
	Snap after = x.sb.snapshot_all();
	for (auto& kv : before) {
		bool is_content = false;
		for (auto& cf : x.sb.cfg.content) if (kv.first == cf || starts_with(kv.first, cf + ".")) is_content = true;
		if (is_content) continue;
		auto it = after.find(kv.first);
		if (it == after.end() || (kv.second.type != 'd' && it->second.data != kv.second.data)) { x.violation("C15", "scrub-modified-files", cl + ": " + kv.first); break; }
	}
	if (!V.empty()) { ++x.out.nontrivial_cases; x.out.nontrivial = true; x.out.case_hashes.insert(mix64(x.plan->seed, x.out.cases * 131 + V.size())); }
	// for the liveness op
	Json seen = x.vars.count("c15_seen") ? x.vars["c15_seen"] : Json::arr();
	for (auto p : V) seen.push((uint64_t)p);
	x.vars["c15_seen"] = seen;
	Json smp = Json::obj();
	smp.set("family", "scrubplan").set("seed", x.plan->seed).set("command", cl).set("stripes", n).set("verified", (uint64_t)V.size());
	Json ages = Json::arr();
	for (uint32_t p = 0; p < n && p < 24; ++p) ages.push(c0.info[p].present ? strf("%u:%lld%s%s", p, (long long)(now - c0.info[p].time) / 86400, c0.info[p].bad ? "b" : "", c0.info[p].justsynced ? "n" : "") : strf("%u:-", p));
	smp.set("age_days_per_stripe", ages);
	x.out.sample = smp;
}

// 13 default scrubs, 11 days apart, cover every used stripe
static void op_c15_liveness(Exec& x, const Json& op, int)
{
	std::vector<LoadedContent> cs = load_contents(x.sb);
	const LoadedContent* lc = first_good(cs);
	if (!lc || lc->c.blockmax == 0) return;
	std::set<uint32_t> used;
	for (uint32_t p = 0; p < lc->c.blockmax; ++p) if (lc->c.info[p].present) used.insert(p);
	if (used.empty()) return;
	// a stripe that involves files changed since the sync can never be verified (by design it is neither marked nor refreshed) and stays
	// the oldest: progress is promised for a synced array
	for (auto& t : truth(x, lc->c)) if (t.changed) { x.probe("c15.liveness_skipped_unsynced"); return; }
	x.vars["c15_seen"] = Json::arr();
	for (int k = 0; k < 13; ++k) {
		x.sb.advance_clock(11 * 86400);
		Json o = Json::obj().set("plan", "").set("seed", op.num("seed") + k);
		op_c15_scrub(x, o, 0);
	}
	std::set<uint32_t> seen;
	for (auto& v : x.vars["c15_seen"].a) seen.insert((uint32_t)v.i);
	unsigned missed = 0;
	for (auto p : used) if (!seen.count(p)) ++missed;
	unsigned still_bad = 0;
	{
		std::vector<LoadedContent> cs2 = load_contents(x.sb);
		const LoadedContent* l2 = first_good(cs2);
		if (l2) for (auto& i : l2->c.info) if (i.present && i.bad) ++still_bad;
	}
	if (missed) x.violation("C15", "default-scrubs-never-cover", strf("13 default scrubs 11 days apart left %u of %zu used stripes unverified", missed, used.size()) + (still_bad ? " [the quota was consumed by stripes already marked bad]" : ""));
	x.probe("c15.liveness_checked");
}

static void op_silent_h(Exec& x, const Json& op, int)
{
	std::string rel = op.has("sub") ? x.disk_top(op.num("d")) + "/" + op.str("sub") : x.pick_file(op.num("d"), op.num("f"));
	if (op.has("sub") && !x.sb.exists(rel)) return;
	if (rel.empty()) return;
	Bytes b;
	x.sb.get_file(rel, b);
	if (b.empty()) return;
	size_t at = (size_t)((uint64_t)op.num("at") % b.size());
	Bytes nb(1, (char)(b[at] ^ (1 + (op.num("at") % 255))));
	x.sb.corrupt_bytes(rel, at, nb);
	x.probe("silent_damage_ops");
}

static RunPlan gen_scrubplan(uint64_t seed, int tier)
{
	Rng rng(seed);
	RunPlan p;
	p.family = "scrubplan";
	p.seed = seed;
	p.cfg = gen_config(rng, 4, 3, true);
	p.cfg.autosave_at = 0;
	auto clock = [&](int64_t days, int64_t extra = 0) { p.ops.push_back(Json::obj().set("k", "clock").set("adv", days * 86400 + extra)); };
	auto sync = [&](std::vector<std::string> opts) { CmdSpec s; s.cmd = "sync"; s.opts = opts; s.opts.push_back("-E"); s.opts.push_back("-Z"); p.ops.push_back(op_cmd(gen_sched(rng, s))); };
	// build ages by history: several waves of files synced at different times (ties and 8 second boundaries on purpose)
	int waves = (int)rng.range(2, tier ? 6 : 4);
	for (int w = 0; w < waves; ++w) {
		for (auto& o : gen_populate(rng, p.cfg, 0, 2)) { Json c = o; c.set("name", strf("w%d_", w) + c.str("name")); p.ops.push_back(c); }
		if (rng.chance(1, 3)) sync({ "-B", strf("%d", (int)rng.range(1, 6)) });
		sync({});
		switch (rng.below(4)) {
		case 0: clock(rng.range(1, 40)); break;
		case 1: clock(0, rng.range(1, 20)); break; // within / across the 8 second granularity
		case 2: clock(rng.range(8, 15), rng.range(0, 9)); break;
		default: break; // a tie
		}
		if (rng.chance(1, 3)) {
			Json sc = Json::obj().set("k", "c15_scrub").set("seed", rng.next() >> 1);
			static const char* plans[] = { "", "new", "30", "60", "full", "bad" };
			sc.set("plan", plans[rng.below(6)]);
			if (rng.chance(1, 2) && sc.str("plan") != "new" && sc.str("plan") != "full" && sc.str("plan") != "bad") sc.set("older", rng.range(0, 20));
			p.ops.push_back(sc);
		}
		if (rng.chance(1, 8)) clock(-rng.range(1, 5)); // the clock steps backwards: check times in the future
	}
	// silent errors and files changed since the sync
	int nsil = (int)rng.range(0, 2);
	for (int i = 0; i < nsil; ++i) p.ops.push_back(Json::obj().set("k", "silent").set("d", (int64_t)rng.below(p.cfg.disks.size())).set("f", (int64_t)rng.below(32)).set("at", rng.next() >> 8));
	if (rng.chance(1, 2)) {
		for (auto& o : gen_mutations(rng, p.cfg, (int)rng.range(1, 3))) p.ops.push_back(o);
		if (rng.chance(1, 2)) {
			// a deletion makes the point: the recorded state then has freed positions over parity that still contains the old data
			p.ops.push_back(Json::obj().set("k", "delete").set("d", (int64_t)rng.below(p.cfg.disks.size())).set("f", (int64_t)rng.below(32)));
			if (rng.chance(1, 2)) p.ops.push_back(Json::obj().set("k", "delete").set("d", (int64_t)rng.below(p.cfg.disks.size())).set("f", (int64_t)rng.below(32)));
		}
		if (rng.chance(1, 2)) {
			// the changes are recorded by a sync that stops early (-B, or interrupted): pending and freed blocks over stale parity
			CmdSpec s;
			s.cmd = "sync";
			s.opts = { "-E", "-Z" };
			if (rng.chance(1, 2)) { s.opts.push_back("-B"); s.opts.push_back(strf("%d", (int)rng.range(1, 3))); }
			else { s.sig_at_io = (unsigned)rng.range(1, 12); s.sig_no = 2; }
			Json so = op_cmd(gen_sched(rng, s));
			if (nsil) so.set("no_parity_oracle", 1); // the data was damaged on purpose just before
			p.ops.push_back(so);
		}
	}
	clock(rng.range(0, 30));
	int scrubs = (int)rng.range(1, 3);
	for (int i = 0; i < scrubs; ++i) {
		Json sc = Json::obj().set("k", "c15_scrub").set("seed", rng.next() >> 1);
		switch (rng.below(8)) {
		case 0: sc.set("plan", "full"); break;
		case 1: sc.set("plan", "new"); break;
		case 2: sc.set("plan", "bad"); break;
		case 3: sc.set("plan", ""); break;
		default: sc.set("plan", strf("%d", (int)rng.range(0, 100))); if (rng.chance(2, 3)) sc.set("older", rng.range(0, 45)); break;
		}
		p.ops.push_back(sc);
		if (rng.chance(1, 3)) {
			// scrub -> fix -e -> scrub -p bad
			CmdSpec fx; fx.cmd = "fix"; fx.opts = { "-e" };
			p.ops.push_back(op_cmd(gen_sched(rng, fx)));
			p.ops.push_back(Json::obj().set("k", "c15_scrub").set("seed", rng.next() >> 1).set("plan", "bad"));
		}
		if (rng.chance(1, 2)) clock(rng.range(0, 12));
	}
	if (rng.chance(1, 6)) p.ops.push_back(Json::obj().set("k", "c15_liveness").set("seed", rng.next() >> 8));
	return p;
}

static struct RegScrubplan {
	RegScrubplan()
	{
		Exec::register_op("c15_scrub", op_c15_scrub);
		Exec::register_op("c15_liveness", op_c15_liveness);
		Exec::register_op("silent", op_silent_h);
		Family f;
		f.name = "scrubplan";
		f.prop = "C15";
		f.level = "exploration";
		f.gen = gen_scrubplan;
		register_family(f);
	}
} reg_scrubplan;
