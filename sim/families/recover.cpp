// family recover (C01): after a clean sync, damage <= N blocks of every stripe (whole devices or
// per-stripe patterns), run fix, and compare the data disks with the byte+mtime snapshot taken at
// sync time; a following check must find nothing.
#include <fcntl.h>
#include <unistd.h>
#include <sys/stat.h>
#include "run.hpp"

CmdSpec gen_sync_variant(Rng& rng, const Config& cfg);

static bool is_tool_file(const Sandbox& sb, const std::string& rel)
{
	for (auto& c : sb.cfg.content)
		if (rel == c || starts_with(rel, c + ".")) return true;
	return false;
}

// compare the data disks with the snapshot of the last clean sync (C01 oracle). Returns problems.
std::vector<std::string> compare_with_synced(Exec& x, const Snap& want, bool allow_mtime_collision_rule)
{
	std::vector<std::string> out;
	Snap now = x.sb.snapshot(x.sb.data_tops());
	auto disk_of = [](const std::string& rel) { return rel.substr(0, rel.find('/')); };
	for (auto& kv : want) {
		const std::string& rel = kv.first;
		if (is_tool_file(x.sb, rel)) continue;
		const SnapNode& w = kv.second;
		auto it = now.find(rel);
		if (it == now.end()) {
			// a non-empty directory needs no record of its own, but then its children are compared
			out.push_back("missing " + rel);
			continue;
		}
		const SnapNode& n = it->second;
		if (n.type != w.type) { out.push_back("type changed " + rel); continue; }
		if (w.type == 'd') continue;
		if (n.data != w.data) { out.push_back(strf("content differs %s (%zu bytes, want %zu)", rel.c_str(), n.data.size(), w.data.size())); continue; }
		if (w.type == 'f' && (n.mtime_s != w.mtime_s || n.mtime_ns != w.mtime_ns)) {
			bool excused = false;
			if (allow_mtime_collision_rule) {
				for (auto& o : want)
					if (o.first != rel && o.second.type == 'f' && disk_of(o.first) == disk_of(rel) && !is_tool_file(x.sb, o.first)
						&& o.second.data.size() == w.data.size() && o.second.mtime_s == w.mtime_s && o.second.mtime_ns == w.mtime_ns)
						excused = true;
			}
			if (excused) x.probe("c01.mtime_collision_excused");
			else out.push_back(strf("mtime differs %s (%lld.%09lld, want %lld.%09lld)", rel.c_str(), (long long)n.mtime_s, (long long)n.mtime_ns, (long long)w.mtime_s, (long long)w.mtime_ns));
		}
	}
	// hard links keep sharing an inode
	std::map<uint64_t, std::vector<std::string>> groups;
	for (auto& kv : want)
		if (kv.second.type == 'f' && !is_tool_file(x.sb, kv.first)) groups[kv.second.vino].push_back(kv.first);
	for (auto& g : groups) {
		if (g.second.size() < 2) continue;
		uint64_t v = 0;
		bool first = true;
		for (auto& rel : g.second) {
			auto it = now.find(rel);
			if (it == now.end()) continue;
			if (first) { v = it->second.vino; first = false; }
			else if (it->second.vino != v) out.push_back("hard link no longer shares the inode: " + rel);
		}
		x.probe("c01.hardlink_groups");
	}
	// nothing foreign may appear (e.g. *.unrecoverable)
	for (auto& kv : now)
		if (!want.count(kv.first) && !is_tool_file(x.sb, kv.first)) out.push_back("unexpected " + kv.first);
	return out;
}

struct Damage {
	std::set<std::pair<uint32_t, uint32_t>> hit_data; // (map idx, pos)
	std::set<std::pair<int, uint32_t>> hit_parity;    // (level, pos)
	std::vector<unsigned> cnt;
	unsigned n = 0;
	unsigned total() const { return (unsigned)(hit_data.size() + hit_parity.size()); }
};

static void damage_bytes(Exec& x, Rng& r, const std::string& rel, uint64_t off, uint64_t len, int shape)
{
	Bytes cur;
	x.sb.get_file(rel, cur);
	if (off >= cur.size()) return;
	if (off + len > cur.size()) len = cur.size() - off;
	if (len == 0) return;
	Bytes nb = cur.substr(off, len);
	switch (shape) {
	case 0: { size_t i = r.below(len); nb[i] = (char)(nb[i] ^ (1 << r.below(8))); break; }   // one bit
	case 1: { size_t i = r.below(len); nb[i] = (char)(nb[i] + 1 + r.below(254)); break; }    // one byte
	case 2: for (auto& c : nb) c = (char)(c ^ (1 + r.below(255))); break;                     // whole block
	default: { Bytes z(len, '\0'); if (z == nb) nb[0] = 1; else nb = z; break; }               // zeroing
	}
	x.sb.corrupt_bytes(rel, off, nb);
}

static void op_c01_damage(Exec& x, const Json& op, int)
{
	std::vector<LoadedContent> cs = load_contents(x.sb);
	const LoadedContent* lc = first_good(cs);
	if (!lc) { x.harness("c01_damage: no content"); return; }
	const Content& c = lc->c;
	Rng r((uint64_t)op.num("seed"));
	unsigned N = (unsigned)x.sb.cfg.np;
	if (op.num("nolimit")) N = 1000; // family fixsafe: any amount of damage
	StripeMap sm = build_stripes(c);
	Damage dm;
	dm.cnt.assign(c.blockmax, 0);
	int mode = (int)op.num("mode");
	unsigned bs = c.block_size;
	auto top_of_map = [&](uint32_t mi) { return x.sb.disk(c.maps[mi].name)->top; };
	auto can_hit = [&](const std::vector<uint32_t>& stripes) {
		std::map<uint32_t, unsigned> add;
		for (auto p : stripes) add[p]++;
		for (auto& kv : add) if (dm.cnt[kv.first] + kv.second > N) return false;
		return true;
	};
	auto hit_data = [&](uint32_t mi, uint32_t pos) {
		if (dm.hit_data.insert({ mi, pos }).second) dm.cnt[pos]++;
	};
	auto hit_parity = [&](int l, uint32_t pos) {
		if (dm.hit_parity.insert({ l, pos }).second) dm.cnt[pos]++;
	};
	Json desc = Json::arr();

	if (mode == 0) {
		// whole devices: k <= N of (data disks + parity levels)
		std::vector<int> devs; // >=0 data map idx, <0 parity level -(l+1)
		for (size_t m = 0; m < c.maps.size(); ++m) devs.push_back((int)m);
		for (unsigned l = 0; l < (unsigned)x.sb.cfg.np; ++l) devs.push_back(-(int)(l + 1));
		unsigned k = 1 + (unsigned)r.below(std::min<unsigned>(N, (unsigned)devs.size()));
		if (op.has("k")) k = (unsigned)op.num("k");
		for (unsigned i = 0; i < k && !devs.empty(); ++i) {
			size_t j = r.below(devs.size());
			int d = devs[j];
			devs.erase(devs.begin() + (long)j);
			if (d >= 0) {
				std::string top = top_of_map((uint32_t)d);
				rm_rf(x.sb.abs(top));
				mkdir(x.sb.abs(top).c_str(), 0755);
				for (uint32_t pos = 0; pos < c.blockmax; ++pos)
					for (auto& b : sm.at[pos]) if (b.file_idx >= 0 && b.map_idx == (uint32_t)d) hit_data((uint32_t)d, pos);
				desc.push("lose disk " + c.maps[(size_t)d].name);
				x.probe("c01.disk_lost");
			} else {
				int l = -d - 1;
				int how = (int)r.below(3);
				for (int s = 0; s < x.sb.cfg.splits[(size_t)l]; ++s) {
					std::string rel = x.sb.cfg.parity_rel(l, s);
					Bytes b;
					if (!x.sb.get_file(rel, b)) continue;
					if (how == 0) x.sb.remove_path(rel);
					else if (how == 1) { b.resize(b.size() / 2); write_file(x.sb.abs(rel), b); }
					else { Bytes g = gen_bytes(r.next(), b.size()); write_file(x.sb.abs(rel), g); }
				}
				for (uint32_t pos = 0; pos < c.blockmax; ++pos) hit_parity(l, pos);
				desc.push(strf("lose parity level %d (%s)", l, how == 0 ? "deleted" : how == 1 ? "halved" : "garbage"));
				x.probe("c01.parity_lost");
			}
		}
	} else {
		// per-stripe patterns within the budget of N damaged blocks per stripe
		int tries = (int)op.num("tries", 24);
		for (int t = 0; t < tries; ++t) {
			int what = (int)r.below(10);
			if (what <= 5 && !c.files.empty()) {
				size_t fi = r.below(c.files.size());
				const CFile& f = c.files[fi];
				std::string rel = top_of_map(f.map_idx) + "/" + f.sub;
				if (!x.sb.exists(rel)) continue;
				if (what <= 1) {
					// delete the file
					std::vector<uint32_t> st;
					for (auto& b : f.blocks) if (!dm.hit_data.count({ f.map_idx, b.pos })) st.push_back(b.pos);
					if (!can_hit(st)) continue;
					// a deleted hard-linked file keeps its data reachable through the other name: still "lost" for this name
					x.sb.remove_path(rel);
					for (auto& b : f.blocks) hit_data(f.map_idx, b.pos);
					desc.push("delete " + rel);
					x.probe("c01.file_deleted");
				} else if (what == 2 && f.size > 0) {
					// truncate
					uint64_t ns = r.below(f.size);
					std::vector<uint32_t> st;
					for (size_t bi = (size_t)(ns / bs); bi < f.blocks.size(); ++bi) if (!dm.hit_data.count({ f.map_idx, f.blocks[bi].pos })) st.push_back(f.blocks[bi].pos);
					if (!can_hit(st)) continue;
					Bytes b;
					x.sb.get_file(rel, b);
					uint64_t sz; int64_t s, nsec;
					x.sb.stat_file(rel, sz, s, nsec);
					b.resize((size_t)ns);
					write_file(x.sb.abs(rel), b);
					struct timespec ts[2] = { { (time_t)s, (long)nsec }, { (time_t)s, (long)nsec } };
					utimensat(AT_FDCWD, x.sb.abs(rel).c_str(), ts, 0);
					for (size_t bi = (size_t)(ns / bs); bi < f.blocks.size(); ++bi) hit_data(f.map_idx, f.blocks[bi].pos);
					desc.push(strf("truncate %s to %llu", rel.c_str(), (unsigned long long)ns));
					x.probe("c01.file_truncated");
				} else if (what == 3) {
					// extend with garbage, stamp restored (the data blocks stay intact)
					Bytes b;
					x.sb.get_file(rel, b);
					uint64_t sz; int64_t s, nsec;
					x.sb.stat_file(rel, sz, s, nsec);
					// the last partial block changes its padding: count it
					std::vector<uint32_t> st;
					if (f.size % bs && !f.blocks.empty() && !dm.hit_data.count({ f.map_idx, f.blocks.back().pos })) st.push_back(f.blocks.back().pos);
					if (!can_hit(st)) continue;
					b += gen_bytes(r.next(), 1 + r.below(2 * bs));
					write_file(x.sb.abs(rel), b);
					struct timespec ts[2] = { { (time_t)s, (long)nsec }, { (time_t)s, (long)nsec } };
					utimensat(AT_FDCWD, x.sb.abs(rel).c_str(), ts, 0);
					if (f.size % bs && !f.blocks.empty()) hit_data(f.map_idx, f.blocks.back().pos);
					desc.push("extend " + rel);
					x.probe("c01.file_extended");
				} else if (what == 5 && !f.blocks.empty() && f.size >= 32 && r.chance(1, 2)) { // (not tiny: later random damage must not be able to re-create the right bytes by chance)
					// two files of the same disk and size exchanged by rename: each name now holds the other's bytes, stamp and inode
					const CFile* g = nullptr;
					for (auto& cand : c.files)
						if (&cand != &f && cand.map_idx == f.map_idx && cand.size == f.size && cand.inode != f.inode && x.sb.exists(top_of_map(cand.map_idx) + "/" + cand.sub)) { g = &cand; break; }
					if (!g) continue;
					std::string rel2 = top_of_map(g->map_idx) + "/" + g->sub;
					Bytes b1, b2;
					if (!x.sb.get_file(rel, b1) || !x.sb.get_file(rel2, b2) || b1 == b2) continue;
					// the recorded contents must differ (not a cp -p copy): a name that ends up with its own bytes under the
					// other's stamp is a changed stamp, which fix leaves to the next sync, not damage
					bool recorded_differ = false;
					for (size_t bi = 0; bi < f.blocks.size() && bi < g->blocks.size(); ++bi) if (f.blocks[bi].hash != g->blocks[bi].hash) recorded_differ = true;
					if (!recorded_differ) continue;
					std::vector<uint32_t> st;
					for (auto& b : f.blocks) if (!dm.hit_data.count({ f.map_idx, b.pos })) st.push_back(b.pos);
					for (auto& b : g->blocks) if (!dm.hit_data.count({ g->map_idx, b.pos })) st.push_back(b.pos);
					if (!can_hit(st)) continue;
					std::string tmp = rel + ".swap-tmp";
					if (!x.sb.rename_path(rel, tmp) || !x.sb.rename_path(rel2, rel) || !x.sb.rename_path(tmp, rel2)) continue;
					for (auto& b : f.blocks) hit_data(f.map_idx, b.pos);
					for (auto& b : g->blocks) hit_data(g->map_idx, b.pos);
					desc.push("exchange " + rel + " and " + rel2);
					x.probe("c01.files_exchanged");
				} else if (!f.blocks.empty()) {
					// silent corruption of one block, stamp unchanged
					size_t bi = r.below(f.blocks.size());
					uint32_t pos = f.blocks[bi].pos;
					if (!dm.hit_data.count({ f.map_idx, pos }) && !can_hit({ pos })) continue;
					uint64_t off = (uint64_t)bi * bs;
					damage_bytes(x, r, rel, off, std::min<uint64_t>(bs, f.size - off), (int)r.below(4));
					hit_data(f.map_idx, pos);
					desc.push(strf("corrupt %s block %zu", rel.c_str(), bi));
					x.probe("c01.block_corrupted");
				}
			} else if (what <= 7 && c.blockmax > 0) {
				// parity block
				int l = (int)r.below((unsigned)x.sb.cfg.np);
				uint32_t pos = (uint32_t)r.below(c.blockmax);
				if (sm.at[pos].empty()) continue;
				if (op.num("parity_only_hashed")) {
					// silent parity corruption is detectable only through recorded hashes of the stripe's blocks
					bool all_hashed = true;
					for (auto& b : sm.at[pos]) if (b.file_idx < 0 || b.state == BS_CHG) all_hashed = false;
					if (!all_hashed) continue;
				}
				if (!dm.hit_parity.count({ l, pos }) && !can_hit({ pos })) continue;
				uint64_t off = 0;
				std::string rel = parity_location(x.sb, c, l, pos, off);
				if (rel.empty() || !x.sb.exists(rel)) continue;
				damage_bytes(x, r, rel, off, bs, (int)r.below(4));
				hit_parity(l, pos);
				desc.push(strf("corrupt parity %d pos %u", l, pos));
				x.probe("c01.parity_block_corrupted");
			} else if (what == 8 && !c.links.empty()) {
				const CLink& l = c.links[r.below(c.links.size())];
				std::string rel = top_of_map(l.map_idx) + "/" + l.sub;
				if (!x.sb.exists(rel)) continue;
				x.sb.remove_path(rel);
				desc.push("delete link " + rel);
				x.probe("c01.link_deleted");
			} else if (what == 9 && !c.dirs.empty()) {
				const CDir& d = c.dirs[r.below(c.dirs.size())];
				std::string rel = top_of_map(d.map_idx) + "/" + d.sub;
				if (!x.sb.exists(rel)) continue;
				x.sb.remove_path(rel);
				desc.push("delete empty dir " + rel);
				x.probe("c01.dir_deleted");
			}
		}
	}
	// lose all but one content copy (sometimes)
	if (op.num("lose_content")) {
		std::vector<std::string> present;
		for (auto& rel : x.sb.cfg.content) if (x.sb.exists(rel)) present.push_back(rel);
		if (present.size() > 1) {
			size_t keep = r.below(present.size());
			for (size_t i = 0; i < present.size(); ++i)
				if (i != keep) x.sb.remove_path(present[i]);
			desc.push("keep only content " + present[keep]);
			x.probe("c01.content_copies_lost");
		}
	}
	// make sure at least one content copy survives a disk loss (the property assumes it)
	{
		bool any = false;
		for (auto& rel : x.sb.cfg.content) if (x.sb.exists(rel)) any = true;
		if (!any) {
			write_file(x.sb.abs(x.sb.cfg.content[0]), lc->raw);
			desc.push("restored one content copy (all were on lost devices)");
		}
	}
	x.vars["c01_damage"] = desc;
	x.vars["c01_damaged_blocks"] = Json((uint64_t)dm.total());
	unsigned worst = 0;
	for (auto v : dm.cnt) worst = std::max(worst, v);
	x.vars["c01_worst_stripe"] = Json((uint64_t)worst);
}

static void op_c01_verify(Exec& x, const Json& op, int)
{
	if (!x.have_synced) return;
	CmdSpec fix = CmdSpec::from_json(op.at("spec"));
	CmdResult r = x.cmd(fix);
	std::vector<Tag> tags = parse_tags(r.log);
	std::string dmg = x.vars["c01_damage"].dump();
	if (r.exit_code != 0)
		x.violation("C01", "fix-failed", strf("fix exit=%d sig=%d after damage %s; stderr: %s", r.exit_code, r.term_sig, dmg.c_str(), r.err.substr(0, 300).c_str()));
	size_t unrec = tags_named(tags, "unrecoverable").size();
	for (auto& t : tags) if (t.f.size() >= 2 && t.f[0] == "status" && t.f[1] == "unrecoverable") ++unrec;
	if (unrec) x.violation("C01", "unrecoverable-reported", strf("fix reported %zu unrecoverable errors after damage %s", unrec, dmg.c_str()));
	std::vector<std::string> diffs = compare_with_synced(x, x.synced, true);
	if (!diffs.empty()) {
		std::string m;
		for (size_t i = 0; i < diffs.size() && i < 5; ++i) m += diffs[i] + "; ";
		x.violation("C01", "not-restored", strf("%zu differences after fix: %s damage=%s", diffs.size(), m.c_str(), dmg.c_str()));
	}
	CmdResult c = x.simple("check");
	std::vector<Tag> ctags = parse_tags(c.log);
	if (c.exit_code != 0 || !tags_named(ctags, "error").empty() || !tags_named(ctags, "parity_error").empty())
		x.violation("C01", "check-after-fix", strf("check after fix exit=%d errors=%zu parity_errors=%zu damage=%s", c.exit_code, tags_named(ctags, "error").size(), tags_named(ctags, "parity_error").size(), dmg.c_str()));
	x.out.nontrivial = x.vars["c01_damaged_blocks"].i > 0;
	++x.out.cases;
	if (x.out.nontrivial) ++x.out.nontrivial_cases;
	if (x.out.nontrivial) x.probe("c01.runs_with_block_damage");
	if ((uint64_t)x.vars["c01_worst_stripe"].i == (uint64_t)x.sb.cfg.np) x.probe("c01.stripe_at_full_budget");
	Json s = Json::obj();
	s.set("family", "recover").set("seed", x.plan->seed).set("disks", (uint64_t)x.sb.cfg.disks.size()).set("parities", x.sb.cfg.np).set("zmode", x.sb.cfg.zmode)
		.set("damage", x.vars["c01_damage"]).set("damaged_blocks", x.vars["c01_damaged_blocks"]).set("fix_exit", r.exit_code).set("differences", (uint64_t)diffs.size());
	x.out.sample = s;
}

RunPlan gen_history_to_synced(Rng& rng, const std::string& family, uint64_t seed, int tier, int max_disks)
{
	RunPlan p;
	p.family = family;
	p.seed = seed;
	p.cfg = gen_config(rng, max_disks, 6, true);
	for (auto& o : gen_populate(rng, p.cfg, 1, 6)) p.ops.push_back(o);
	if (rng.chance(1, 4)) {
		// twins: same disk, same size, written in the same second (only the nanoseconds tell their stamps apart)
		int64_t d = (int64_t)rng.below(p.cfg.disks.size());
		uint64_t size = gen_size(rng, p.cfg.block_size());
		if (size < 64) size = p.cfg.block_size() + 1;
		for (int i = 0; i < 2; ++i) p.ops.push_back(Json::obj().set("k", "create").set("d", d).set("name", strf("twin/%c", 'A' + i)).set("size", size).set("seed", rng.next() >> 1));
	}
	int rounds = (int)rng.range(0, tier ? 4 : 3);
	bool migrate = rng.chance(1, 4); // a hash migration in progress: only the stripes touched afterwards use the new hash
	if (migrate && rounds == 0) rounds = 1;
	for (int r = 0; r < rounds; ++r) {
		p.ops.push_back(op_cmd(gen_sync_variant(rng, p.cfg)));
		if (migrate && r == 0) {
			CmdSpec full;
			full.cmd = "sync";
			full.opts = { "-E", "-Z" };
			p.ops.push_back(op_cmd(gen_sched(rng, full)));
			p.ops.push_back(Json::obj().set("k", "rehash").set("seed", rng.next() >> 1));
		}
		for (auto& o : gen_mutations(rng, p.cfg, (int)rng.range(1, 6))) p.ops.push_back(o);
		if (rng.chance(1, 4)) for (auto& o : gen_idiom(rng, p.cfg, r)) p.ops.push_back(o);
	}
	CmdSpec fin;
	fin.cmd = "sync";
	fin.opts = { "-E", "-Z" }; // the history may have emptied a disk or zeroed a file: the documented overrides
	fin = gen_sched(rng, fin);
	Json last = op_cmd(fin, "ok");
	last.set("mark_synced", 1);
	p.ops.push_back(last);
	return p;
}

static RunPlan gen_recover(uint64_t seed, int tier)
{
	Rng rng(seed);
	RunPlan p = gen_history_to_synced(rng, "recover", seed, tier, 6);
	p.ops.push_back(Json::obj().set("k", "c01_damage").set("seed", rng.next() >> 1).set("mode", (int)rng.below(2)).set("tries", rng.range(4, 40)).set("lose_content", (int)rng.chance(1, 3)));
	CmdSpec fix;
	fix.cmd = "fix";
	fix = gen_sched(rng, fix);
	p.ops.push_back(Json::obj().set("k", "c01_verify").set("spec", fix.to_json()));
	return p;
}

static struct RegRecover {
	RegRecover()
	{
		Exec::register_op("c01_damage", op_c01_damage);
		Exec::register_op("c01_verify", op_c01_verify);
		Family f;
		f.name = "recover";
		f.prop = "C01";
		f.level = "exploration";
		f.gen = gen_recover;
		register_family(f);
	}
} reg;
