// family interlock (C14): safety interlocks refuse destructive syncs and change nothing; the lock excludes a second command.
#include <fcntl.h>
#include <unistd.h>
#include <sys/stat.h>
#include "run.hpp"

namespace {

// content + parity files (absent == empty for parity: parity_create opens with O_CREAT before the size check)
std::map<std::string, Bytes> array_files(const Exec& x)
{
	std::map<std::string, Bytes> m;
	for (auto& c : x.sb.cfg.content) { Bytes b; if (x.sb.get_file(c, b)) m[c] = b; else m[c] = "<absent>"; }
	for (int l = 0; l < x.sb.cfg.np; ++l)
		for (int s = 0; s < x.sb.cfg.splits[(size_t)l]; ++s) { Bytes b; x.sb.get_file(x.sb.cfg.parity_rel(l, s), b); m[x.sb.cfg.parity_rel(l, s)] = b; }
	return m;
}

std::string diff_files(const std::map<std::string, Bytes>& a, const std::map<std::string, Bytes>& b)
{
	std::string d;
	for (auto& kv : a) { auto it = b.find(kv.first); if (it == b.end() || it->second != kv.second) d += kv.first + " "; }
	return d;
}

} // namespace

static void op_c14_trigger(Exec& x, const Json& op, int)
{
	int trig = (int)op.num("trigger");
	Rng r((uint64_t)op.num("seed"));
	// the interlocks protect a recorded state: there must be one, complete
	std::vector<LoadedContent> pre_cs = load_contents(x.sb);
	const LoadedContent* pre_lc = first_good(pre_cs);
	if (!pre_lc || pre_lc->c.files.empty()) { x.probe("c14.trigger_not_applicable"); return; }
	for (auto& f : pre_lc->c.files) for (auto& b : f.blocks) if (b.state != BS_BLK) { x.probe("c14.trigger_not_applicable"); return; }
	auto recorded = [&](const std::string& rel, uint64_t* size) {
		for (auto& f : pre_lc->c.files) {
			const DiskCfg* d = x.sb.disk(pre_lc->c.maps[f.map_idx].name);
			if (d && d->top + "/" + f.sub == rel) { if (size) *size = f.size; return true; }
		}
		return false;
	};
	Config saved_cfg = x.sb.cfg;
	std::string override_opt;
	std::string what;
	bool applied = false;
	switch (trig) {
	case 0: { // all files of a disk missing
		std::string top = x.disk_top(op.num("d"));
		std::vector<std::string> files = x.live_files(top);
		bool any_rec = false;
		for (auto& f : files) if (recorded(f, nullptr)) any_rec = true;
		if (!any_rec) break;
		for (auto& f : files) x.sb.remove_path(f);
		override_opt = "-E"; what = "all files of " + top + " missing"; applied = true;
		break;
	}
	case 1: { // all files of a disk rewritten
		std::string top = x.disk_top(op.num("d"));
		std::vector<std::string> files = x.live_files(top);
		if (files.empty()) break;
		bool any = false;
		// an empty recorded file is never "rewritten": keep the trigger clean (decided before anything is touched)
		bool has_empty = false;
		for (auto& f : files) { Bytes b; x.sb.get_file(f, b); if (recorded(f, nullptr) && b.empty()) has_empty = true; }
		if (has_empty) break;
		for (auto& f : files) {
			Bytes b; x.sb.get_file(f, b);
			uint64_t rs = 0;
			if (!recorded(f, &rs)) continue;
			int64_t s, ns; x.sb.next_stamp(s, ns);
			x.sb.put_file(f, gen_bytes(r.next(), b.size()), s, ns, true);
			any = true;
		}
		if (!any) break;
		override_opt = "-E"; what = "all files of " + top + " rewritten"; applied = true;
		break;
	}
	case 2: { // a non-empty file now has zero size
		std::string f = x.pick_file(op.num("d"), op.num("f"));
		Bytes b;
		uint64_t rs = 0;
		if (f.empty() || !x.sb.get_file(f, b) || b.empty() || !recorded(f, &rs) || rs == 0) break;
		// only files the content knows as non-empty trigger it
		int64_t s, ns; x.sb.next_stamp(s, ns);
		x.sb.put_file(f, Bytes(), s, ns, false);
		override_opt = "-Z"; what = f + " truncated to zero"; applied = true;
		break;
	}
	case 3: { // parity smaller than recorded / deleted
		int l = (int)(op.num("level") % x.sb.cfg.np);
		std::string rel = x.sb.cfg.parity_rel(l, 0);
		Bytes b;
		if (!x.sb.get_file(rel, b) || b.size() < 2 * x.sb.cfg.block_size()) break;
		if (r.chance(1, 2)) { x.sb.remove_path(rel); what = rel + " deleted"; }
		else { b.resize(b.size() / 2 / x.sb.cfg.block_size() * x.sb.cfg.block_size()); write_file(x.sb.abs(rel), b); what = rel + " halved"; }
		override_opt = "-F"; applied = true;
		break;
	}
	case 4: // block size changed in the configuration
		x.sb.cfg.block_kib = x.sb.cfg.block_kib == 1 ? 2 : 1;
		x.sb.write_conf();
		what = "blocksize changed in the configuration"; applied = true;
		break;
	case 5: { // hash size changed
		// the content file records the hash size through the hashes it stores (the default size is not even written):
		// without a single hashed block there is nothing that could differ
		bool any_block = false;
		for (auto& f : pre_lc->c.files) if (!f.blocks.empty()) any_block = true;
		if (!any_block) break;
		}
		x.sb.cfg.hash_size = x.sb.cfg.hash_size == 16 ? 8 : 16;
		x.sb.write_conf();
		what = "hashsize changed in the configuration"; applied = true;
		break;
	case 6: { // a recorded disk dropped from the configuration
		if (x.sb.cfg.disks.size() < 2) break;
		size_t d = (size_t)(op.num("d") % (int64_t)x.sb.cfg.disks.size());
		if (x.live_files(x.sb.cfg.disks[d].top).empty()) break;
		// a content copy on that disk would be dropped too: keep the configuration of content files valid
		bool has_content = false;
		for (auto& c : x.sb.cfg.content) if (starts_with(c, x.sb.cfg.disks[d].top + "/")) has_content = true;
		if (has_content) break;
		x.sb.cfg.disks[d].in_config = false;
		x.sb.write_conf();
		what = "disk " + x.sb.cfg.disks[d].name + " dropped from the configuration"; applied = true;
		break;
	}
	}
	if (!applied) { x.probe("c14.trigger_not_applicable"); return; }
	// ordinary pending changes on the disk that lost its known files: new files, or a copy (same name, size, stamp, bytes) of a
	// file recorded on another disk, as left by cp -p / rsync -t or by two disks mounted in swapped directories
	if ((trig == 0 || trig == 1) && op.num("mix")) {
		std::string top = x.disk_top(op.num("d"));
		int kind = (int)r.below(3);
		if (kind == 0) {
			int64_t s, ns; x.sb.next_stamp(s, ns);
			x.sb.put_file(top + "/arrived_" + strf("%u_%d", x.sb.cmd_index, (int)r.below(100)), gen_bytes(r.next(), 1 + r.below(3000)), s, ns);
			what += " + a new file on it";
			x.probe("c14.emptied_disk_with_new_file");
		} else {
			std::vector<const CFile*> cand;
			for (auto& f : pre_lc->c.files) {
				const DiskCfg* d = x.sb.disk(pre_lc->c.maps[f.map_idx].name);
				// (not under a path the emptied disk had recorded itself: that would bring a known file back; and only files that
				// still are what the content records, else the "copy" is a decoy - family decoy's business)
				uint64_t csz = 0; int64_t cs = 0, cns = 0;
				if (d && d->top != top && f.size > 0 && !x.sb.exists(top + "/" + f.sub) && !recorded(top + "/" + f.sub, nullptr)
					&& x.sb.stat_file(d->top + "/" + f.sub, csz, cs, cns) && csz == f.size && cs == f.mtime_sec && cns == f.mtime_nsec) cand.push_back(&f);
			}
			size_t n = kind == 1 ? 1 : cand.size(); // one copy, or everything the other disks hold (swapped mount points)
			for (size_t i = 0; i < n && !cand.empty(); ++i) {
				const CFile* f = kind == 1 ? cand[r.below(cand.size())] : cand[i];
				const DiskCfg* d = x.sb.disk(pre_lc->c.maps[f->map_idx].name);
				Bytes b;
				if (!x.sb.get_file(d->top + "/" + f->sub, b) || b.size() != f->size) continue;
				if (x.sb.put_file(top + "/" + f->sub, b, f->mtime_sec, f->mtime_nsec < 0 ? 0 : f->mtime_nsec)) { what += " + copy of " + d->top + "/" + f->sub; x.probe("c14.emptied_disk_with_cross_disk_copy"); }
			}
		}
	}
	// ordinary pending changes mixed in (on another disk)
	if (op.num("mix")) {
		int64_t s, ns; x.sb.next_stamp(s, ns);
		std::string top = x.disk_top(op.num("d") + 1);
		if (trig != 6 && trig != 0 && trig != 1) x.sb.put_file(top + "/mixed_in_" + strf("%u_%d", x.sb.cmd_index, (int)r.below(100)), gen_bytes(r.next(), r.below(3000)), s, ns); // never the name of an earlier one
	}
	std::map<std::string, Bytes> before = array_files(x);
	CmdSpec s;
	s.cmd = "sync";
	s.sched_seed = r.next() >> 1;
	bool saved = x.check_parity_every_cmd;
	x.check_parity_every_cmd = false;
	CmdResult r1 = x.cmd(s);
	++x.out.cases;
	++x.out.nontrivial_cases;
	x.out.nontrivial = true;
	x.out.case_hashes.insert(mix64(x.plan->seed, (uint64_t)trig * 7 + x.out.cases));
	x.probe(strf("c14.trigger_%d", trig));
	std::string when = "sync with " + what;
	if (r1.exit_code == 0) x.violation("C14", "destructive-sync-not-refused", when + ": exit 0");
	std::map<std::string, Bytes> after = array_files(x);
	std::string d = diff_files(before, after);
	if (!d.empty()) x.violation("C14", "refused-sync-changed-files", when + strf(" (exit %d): changed ", r1.exit_code) + d);
	// with the override (or the configuration restored) the same sync proceeds
	if (!override_opt.empty()) {
		CmdSpec s2 = s;
		s2.opts = { override_opt };
		s2.sched_seed = r.next() >> 1;
		CmdResult r2 = x.cmd(s2);
		if (r2.exit_code != 0 && (r2.err.find("--force-empty") != std::string::npos || r2.err.find("--force-zero") != std::string::npos)) {
			// the change tripped a second interlock as well (e.g. the emptied file was the only one of its disk)
			x.probe("c14.two_interlocks_at_once");
			s2.opts = { "-E", "-Z" };
			if (override_opt == "-F") s2.opts.push_back("-F");
			r2 = x.cmd(s2);
		}
		if (r2.exit_code != 0) {
			// -E and -Z may both be needed when the mixed-in changes trip another interlock: not our case; report
			x.violation("C14", "override-does-not-proceed", when + " + " + override_opt + strf(": exit %d: ", r2.exit_code) + r2.err.substr(0, 300));
		} else {
			x.check_parity_every_cmd = saved;
			x.check_parity_invariant("after overridden sync");
			CmdResult df = x.simple("diff");
			if (df.exit_code != 0) x.violation("C14", "override-not-converged", when + " + " + override_opt + strf(": diff exit %d afterwards", df.exit_code));
		}
	} else {
		x.sb.cfg = saved_cfg;
		x.sb.write_conf();
		CmdSpec s2 = s;
		s2.opts = { "-E", "-Z" };
		CmdResult r2 = x.cmd(s2);
		if (r2.exit_code != 0) x.violation("C14", "sync-fails-after-config-restored", when + strf(": with the configuration restored sync exits %d: ", r2.exit_code) + r2.err.substr(0, 300));
	}
	x.check_parity_every_cmd = saved;
	Json smp = Json::obj();
	smp.set("family", "interlock").set("seed", x.plan->seed).set("trigger", what).set("refused_exit", r1.exit_code).set("override", override_opt);
	x.out.sample = smp;
}

// command A parks at mutation index k holding (or not yet holding) the lock, B runs, A resumes
static void op_c14_lock(Exec& x, const Json& op, int)
{
	CmdSpec a = CmdSpec::from_json(op.at("a"));
	CmdSpec b = CmdSpec::from_json(op.at("b"));
	Snap pre = x.sb.snapshot_all();
	int64_t pre_now = x.sb.now_s;
	unsigned pre_idx = x.sb.cmd_index;
	auto reset = [&]() { x.sb.restore_all(pre); x.sb.now_s = pre_now; x.sb.cmd_index = pre_idx; };
	// reference: A alone, to know its mutation count
	CmdResult ra0 = x.cmd(a);
	unsigned M = ra0.info.mut_count;
	std::vector<unsigned> ks;
	if (x.focused()) ks.push_back((unsigned)x.focus().num("k"));
	else {
		int n = (int)op.num("points", 4);
		Rng r((uint64_t)op.num("seed"));
		ks.push_back(1);
		ks.push_back(2);
		for (int i = 0; i < n && M > 2; ++i) ks.push_back(2 + (unsigned)r.below(M - 1));
	}
	for (unsigned k : ks) {
		if (k > M) continue;
		reset();
		CmdSpec ap = a;
		ap.park_at = k;
		CmdResult ra, rb;
		bool while_parked = false;
		std::map<std::string, Bytes> before_b;
		// B's footprint is judged through its own trace (write policy) and its exit status
		x.sb.run_pair(ap, b, ra, rb, while_parked);
		x.out.commands += 2;
		++x.out.cases;
		Json focus = Json::obj().set("k", k);
		if (ra.harness_error || rb.harness_error) { x.harness("c14 lock pair"); return; }
		std::string when = strf("%s parked at mutation %u/%u while %s runs", a.cmd.c_str(), k, M, b.cmd.c_str());
		// does A hold the lock at k? it does once its trace shows a successful flock before the park
		bool a_holds = false;
		for (auto& e : ra.trace) { if (e.kind == EV_PARK) break; if (e.kind == EV_FLOCK && e.res == 0) a_holds = true; }
		bool b_skips_lock = b.cmd == "devices";
		if (while_parked && a_holds && !b_skips_lock) {
			++x.out.nontrivial_cases;
			x.out.nontrivial = true;
			x.out.case_hashes.insert(mix64(x.plan->seed, k));
			x.probe("c14.second_command_while_lock_held");
			if (rb.exit_code == 0) x.violation("C14", "lock-not-exclusive", when + ": the second command ran to success while the first holds the lock", focus);
			else if (rb.err.find("already in use") == std::string::npos) x.violation("C14", "lock-refusal-without-diagnostic", when + strf(": exit %d without the 'already in use' message: ", rb.exit_code) + rb.err.substr(0, 200), focus);
			// B changed nothing: no mutating call except on the lock file
			for (auto& e : rb.trace) {
				if (!(e.flags & EVF_MUT) || e.res < 0) continue;
				const std::string& p = rb.path(e.path);
				if (ends_with(p, ".lock")) continue;
				x.violation("C14", "locked-out-command-wrote", when + ": " + ev_name(e.kind) + " " + p, focus);
				break;
			}
			// A is not disturbed: same outcome as alone
			if (ra.exit_code != ra0.exit_code) x.violation("C14", "first-command-disturbed", when + strf(": exit %d instead of %d", ra.exit_code, ra0.exit_code), focus);
		} else {
			x.probe("c14.second_command_without_lock_held");
		}
		// once A ended B succeeds (or at least is not refused for the lock)
		CmdResult rb2 = x.cmd(b);
		if (rb2.err.find("already in use") != std::string::npos) x.violation("C14", "lock-stuck", when + ": after the first command ended the second is still refused", focus);
	}
	reset();
	x.cmd(a);
}

static RunPlan gen_interlock(uint64_t seed, int tier)
{
	Rng rng(seed);
	RunPlan p;
	p.family = "interlock";
	p.seed = seed;
	p.cfg = gen_config(rng, 4, 3, false);
	p.cfg.hash_size = rng.chance(1, 2) ? 16 : 8;
	for (auto& o : gen_populate(rng, p.cfg, 2, 5, false)) p.ops.push_back(o);
	CmdSpec base;
	base.cmd = "sync";
	p.ops.push_back(op_cmd(gen_sched(rng, base), "ok"));
	if (rng.chance(2, 3)) {
		int n = (int)rng.range(1, tier ? 4 : 2);
		for (int i = 0; i < n; ++i)
			p.ops.push_back(Json::obj().set("k", "c14_trigger").set("trigger", (int)rng.below(7)).set("d", (int64_t)rng.below(8)).set("f", (int64_t)rng.below(32)).set("level", (int)rng.below(6))
				.set("mix", (int)rng.below(2)).set("seed", rng.next() >> 1));
	} else {
		for (auto& o : gen_mutations(rng, p.cfg, (int)rng.range(1, 4), false)) p.ops.push_back(o);
		static const char* acmds[] = { "sync", "sync", "scrub", "fix", "check" };
		static const char* bcmds[] = { "sync", "scrub", "fix", "status", "diff", "check", "list", "touch", "devices" };
		CmdSpec a, b;
		a.cmd = acmds[rng.below(5)];
		if (a.cmd == "sync") a.opts = { "-E", "-Z" };
		if (a.cmd == "scrub") a.opts = { "-p", "full" };
		a = gen_sched(rng, a);
		b.cmd = bcmds[rng.below(9)];
		if (b.cmd == "sync") b.opts = { "-E", "-Z" };
		b = gen_sched(rng, b);
		p.ops.push_back(Json::obj().set("k", "c14_lock").set("a", a.to_json()).set("b", b.to_json()).set("points", tier ? 12 : 4).set("seed", rng.next() >> 1));
	}
	return p;
}

static struct RegInterlock {
	RegInterlock()
	{
		Exec::register_op("c14_trigger", op_c14_trigger);
		Exec::register_op("c14_lock", op_c14_lock);
		Family f;
		f.name = "interlock";
		f.prop = "C14";
		f.level = "exploration";
		f.gen = gen_interlock;
		register_family(f);
	}
} reg_interlock;
