// family converge (C11): a successful sync captures every change and converges; diff tells the truth before it.
#include <fcntl.h>
#include <unistd.h>
#include <sys/stat.h>
#include "run.hpp"

CmdSpec gen_sync_variant(Rng& rng, const Config& cfg);

namespace {

struct Entry { char type; uint64_t size; int64_t ms; int64_t mns; uint64_t ino; std::string target; };
typedef std::map<std::string, Entry> Tree; // "disk\0sub" -> entry ('f' file, 'l' symlink, 'h' hardlink(target=first name), 'd' empty dir)

std::string key(const std::string& disk, const std::string& sub) { return disk + std::string(1, '\0') + sub; }

bool is_tool(const Sandbox& sb, const std::string& rel)
{
	for (auto& c : sb.cfg.content)
		if (rel == c || starts_with(rel, c + ".")) return true;
	return false;
}

// what is on the data disks now
Tree walk_fs(const Exec& x)
{
	Tree t;
	for (auto& d : x.sb.cfg.disks) {
		Snap s = x.sb.snapshot({ d.top });
		std::set<std::string> nonempty;
		for (auto& kv : s) {
			if (is_tool(x.sb, kv.first)) continue;
			std::string sub = kv.first.substr(d.top.size() + 1);
			size_t p = 0;
			while ((p = sub.find('/', p)) != std::string::npos) { nonempty.insert(sub.substr(0, p)); ++p; }
		}
		for (auto& kv : s) {
			if (is_tool(x.sb, kv.first)) continue;
			std::string sub = kv.first.substr(d.top.size() + 1);
			Entry e{ kv.second.type, kv.second.data.size(), kv.second.mtime_s, kv.second.mtime_ns, kv.second.vino, "" };
			if (kv.second.type == 'l') { e.target = kv.second.data; e.size = 0; }
			if (kv.second.type == 'd') { if (nonempty.count(sub)) continue; e.size = 0; }
			t[key(d.name, sub)] = e;
		}
	}
	return t;
}

// what the content file records
Tree recorded(const Content& c)
{
	Tree t;
	for (auto& f : c.files) t[key(c.maps[f.map_idx].name, f.sub)] = Entry{ 'f', f.size, f.mtime_sec, f.mtime_nsec, f.inode, "" };
	for (auto& l : c.links) t[key(c.maps[l.map_idx].name, l.sub)] = Entry{ l.hard ? 'h' : 'l', 0, 0, 0, 0, l.to };
	for (auto& d : c.dirs) t[key(c.maps[d.map_idx].name, d.sub)] = Entry{ 'd', 0, 0, 0, 0, "" };
	return t;
}

// Compare ignoring empty directories (unless with_dirs). Hard links: the recorded tree names one path as the file and
// the others as links to it; on disk all names are equal, so groups are compared.
// returns 0 equal, 1 different, 2 only inodes differ
int compare_trees(const Tree& fs, const Tree& rec, bool with_dirs, std::string* why)
{
	// expand recorded hard links into plain files with the size/stamp of their target
	Tree r = rec;
	for (auto& kv : rec)
		if (kv.second.type == 'h') {
			std::string disk = kv.first.substr(0, kv.first.find('\0'));
			auto it = rec.find(key(disk, kv.second.target));
			if (it != rec.end() && it->second.type == 'f') { Entry e = it->second; r[kv.first] = e; }
		}
	bool ino_only = false;
	for (auto& kv : fs) {
		if (kv.second.type == 'd' && !with_dirs) continue;
		auto it = r.find(kv.first);
		std::string name = kv.first;
		std::replace(name.begin(), name.end(), '\0', ':');
		if (it == r.end()) { if (why) *why = "on disk but not recorded: " + name; return 1; }
		const Entry& a = kv.second;
		const Entry& b = it->second;
		if (a.type != b.type) { if (why) *why = "type differs: " + name; return 1; }
		if (a.type == 'f') {
			if (a.size != b.size || a.ms != b.ms || a.mns != b.mns) { if (why) *why = strf("size/stamp differs: %s (%llu %lld.%lld vs recorded %llu %lld.%lld)", name.c_str(), (unsigned long long)a.size, (long long)a.ms, (long long)a.mns, (unsigned long long)b.size, (long long)b.ms, (long long)b.mns); return 1; }
			if (a.ino != b.ino) ino_only = true;
		}
		if (a.type == 'l' && a.target != b.target) { if (why) *why = "link target differs: " + name; return 1; }
	}
	for (auto& kv : r) {
		if (kv.second.type == 'd' && !with_dirs) continue;
		if (!fs.count(kv.first)) {
			std::string name = kv.first;
			std::replace(name.begin(), name.end(), '\0', ':');
			if (why) *why = "recorded but not on disk: " + name;
			return 1;
		}
	}
	return ino_only ? 2 : 0;
}

bool parity_invalid(const Content& c)
{
	StripeMap sm = build_stripes(c);
	for (uint32_t p = 0; p < c.blockmax; ++p) {
		bool one_valid = false, one_invalid = false;
		for (auto& b : sm.at[p]) {
			if (b.file_idx >= 0) one_valid = true;
			if (b.file_idx < 0 || b.state != BS_BLK) one_invalid = true;
		}
		if (one_valid && one_invalid) return true;
	}
	return false;
}

} // namespace

// diff before the sync, then the sync, then the convergence checks
static void op_c11_sync(Exec& x, const Json& op, int)
{
	CmdSpec spec = CmdSpec::from_json(op.at("spec"));
	std::vector<LoadedContent> cs = load_contents(x.sb);
	const LoadedContent* lc = first_good(cs);
	Content empty;
	const Content& before = lc ? lc->c : empty;
	Tree fs = walk_fs(x);
	Tree rec = recorded(before);
	std::string why;
	int cmp = compare_trees(fs, rec, false, &why);
	bool pinv = lc ? parity_invalid(before) : false;

	// --- diff tells the truth
	CmdResult d = x.simple("diff", {}, (uint64_t)op.num("dseed", 7));
	if (d.harness_error) { x.harness("c11 diff"); return; }
	if (d.exit_code != 0 && d.exit_code != 2) x.violation("C11", "diff-failed", strf("diff exit=%d: ", d.exit_code) + d.err.substr(0, 300));
	else if (cmp == 1 && d.exit_code != 2) x.violation("C11", "diff-missed-change", "diff exits 0 although " + why);
	else if (cmp == 0 && !pinv && d.exit_code != 0) {
		std::vector<Tag> t = parse_tags(d.log);
		std::string s;
		for (auto& g : t) if (g.f.size() >= 2 && g.f[0] == "scan" && g.f[1] != "equal") s += g.raw + "; ";
		x.violation("C11", "diff-false-change", "diff exits 2 although nothing changed and the last sync was complete: " + s.substr(0, 400));
	} else if (cmp == 0 && pinv && d.exit_code != 2) x.violation("C11", "diff-missed-incomplete-sync", "diff exits 0 although the previous sync was incomplete");
	if (cmp == 2) x.probe("c11.inode_only_change");
	if (cmp == 0 && !pinv) x.probe("c11.diff_nothing_changed");
	if (cmp == 1) x.probe("c11.diff_changed");
	if (pinv) x.probe("c11.previous_sync_incomplete");

	// --- the sync
	CmdResult r = x.cmd(spec);
	if (r.exit_code != 0) { x.probe("c11.sync_failed"); return; }
	bool partial = false;
	for (auto& o : spec.opts) if (o == "-B" || o == "-S" || o == "--test-kill-after-sync") partial = true;
	if (partial) { x.probe("c11.partial_sync"); return; }
	x.probe("c11.sync_ok");
	++x.out.cases;

	// every file whose size or stamp changed is read again
	{
		std::set<std::string> stamps; // disk + size + stamp of recorded files
		for (auto& kv : rec) if (kv.second.type == 'f') stamps.insert(kv.first.substr(0, kv.first.find('\0')) + strf(":%llu:%lld:%lld", (unsigned long long)kv.second.size, (long long)kv.second.ms, (long long)kv.second.mns));
		std::map<std::string, std::set<int64_t>> reads; // rel path -> offsets read
		for (auto& e : r.trace) if (e.kind == EV_PREAD && e.res > 0) reads[r.path(e.path)].insert(e.off);
		unsigned bs = x.sb.cfg.block_size();
		for (auto& kv : fs) {
			if (kv.second.type != 'f' || kv.second.size == 0) continue;
			std::string disk = kv.first.substr(0, kv.first.find('\0'));
			std::string sub = kv.first.substr(kv.first.find('\0') + 1);
			if (stamps.count(disk + strf(":%llu:%lld:%lld", (unsigned long long)kv.second.size, (long long)kv.second.ms, (long long)kv.second.mns))) continue;
			std::string rel = x.sb.disk(disk)->top + "/" + sub;
			// hard links: the data is read through whichever name is the file
			bool any_name = false;
			for (auto& o : fs) if (o.second.type == 'f' && o.second.ino == kv.second.ino && o.first.substr(0, o.first.find('\0')) == disk) {
				std::string orel = x.sb.disk(disk)->top + "/" + o.first.substr(o.first.find('\0') + 1);
				bool all = true;
				for (uint64_t off = 0; off < kv.second.size; off += bs) if (!reads[orel].count((int64_t)off)) all = false;
				if (all) any_name = true;
			}
			if (!any_name) x.violation("C11", "changed-file-not-read", "sync succeeded without reading every block of the new/changed file " + rel);
			else x.probe("c11.changed_file_read");
		}
	}

	// --- converged
	std::vector<LoadedContent> as = load_contents(x.sb);
	const LoadedContent* la = first_good(as);
	if (!la) { x.violation("C11", "no-content-after-sync", "no loadable content after a successful sync"); return; }
	Tree fs2 = walk_fs(x);
	Tree rec2 = recorded(la->c);
	std::string why2;
	int cmp2 = compare_trees(fs2, rec2, true, &why2);
	if (cmp2 == 1) x.violation("C11", "sync-missed-change", "after a successful sync the recorded state differs from the disks: " + why2);
	for (auto& f : la->c.files) for (auto& b : f.blocks) if (b.state != BS_BLK) { x.violation("C11", "sync-left-unsynced", "after a successful complete sync file " + f.sub + " still has unsynced blocks"); break; }
	CmdResult d2 = x.simple("diff");
	if (d2.exit_code != 0) {
		std::vector<Tag> t = parse_tags(d2.log);
		std::string s;
		for (auto& g : t) if (g.f.size() >= 2 && g.f[0] == "scan" && g.f[1] != "equal") s += g.raw + "; ";
		x.violation("C11", "not-converged", strf("diff exit=%d right after a successful sync: ", d2.exit_code) + s.substr(0, 400));
	}
	// list -l agrees with the disks
	CmdResult l = x.simple("list");
	{
		std::vector<Tag> t = parse_tags(l.log);
		Tree lt;
		for (auto& g : t) {
			if (g.f.size() >= 7 && g.f[0] == "file") lt[key(g.f[1], g.f[2])] = Entry{ 'f', strtoull(g.f[3].c_str(), 0, 10), strtoll(g.f[4].c_str(), 0, 10), strtoll(g.f[5].c_str(), 0, 10), strtoull(g.f[6].c_str(), 0, 10), "" };
			else if (g.f.size() >= 4 && g.f[0] == "link_symlink") lt[key(g.f[1], g.f[2])] = Entry{ 'l', 0, 0, 0, 0, g.f[3] };
			else if (g.f.size() >= 4 && g.f[0] == "link_hardlink") lt[key(g.f[1], g.f[2])] = Entry{ 'h', 0, 0, 0, 0, g.f[3] };
		}
		std::string why3;
		if (l.exit_code != 0 || compare_trees(fs2, lt, false, &why3) == 1) x.violation("C11", "list-differs", strf("list (exit %d) does not report exactly what is on the disks: ", l.exit_code) + why3);
	}
	CmdResult c = x.simple("check");
	if (c.exit_code != 0) x.violation("C11", "check-after-sync", strf("check exit=%d right after a successful sync: ", c.exit_code) + c.err.substr(0, 300));
	x.out.nontrivial = true;
	++x.out.nontrivial_cases;
	if (x.out.sample.type == Json::NUL) {
		Json s = Json::obj();
		s.set("family", "converge").set("seed", x.plan->seed).set("files_on_disk", (uint64_t)fs2.size()).set("changed_before_sync", why);
		Json ops = Json::arr();
		for (auto& o : x.plan->ops) if (ops.a.size() < 30) ops.push(o.str("k"));
		s.set("ops", ops);
		x.out.sample = s;
	}
}

static RunPlan gen_converge(uint64_t seed, int tier)
{
	Rng rng(seed);
	RunPlan p;
	p.family = "converge";
	p.seed = seed;
	p.cfg = gen_config(rng, 4, 3, true);
	for (auto& o : gen_populate(rng, p.cfg, 0, 5)) p.ops.push_back(o);
	int rounds = (int)rng.range(2, tier ? 6 : 4);
	for (int r = 0; r < rounds; ++r) {
		if (r > 0) {
			int n = rng.chance(1, 6) ? 0 : (int)rng.range(1, 7);
			for (auto& o : gen_mutations(rng, p.cfg, n)) p.ops.push_back(o);
			// inode reuse after delete + create (different size or stamp)
			if (rng.chance(1, 5)) {
				int64_t d = (int64_t)rng.below(p.cfg.disks.size());
				p.ops.push_back(Json::obj().set("k", "delete").set("d", d).set("f", (int64_t)rng.below(32)));
				Json c = op_create(rng, p.cfg, (int)d, true);
				c.set("reuse_vino", 1);
				p.ops.push_back(c);
			}
			if (rng.chance(1, 8)) p.ops.push_back(Json::obj().set("k", "undelete").set("new_stamp", (int)rng.below(2)));
			if (rng.chance(1, 5)) for (auto& o : gen_idiom(rng, p.cfg, r)) p.ops.push_back(o);
			if (rng.chance(1, 6)) p.ops.push_back(Json::obj().set("k", "reinode").set("d", (int64_t)rng.below(p.cfg.disks.size())).set("f", (int64_t)rng.below(32)));
			// swap two names
			if (rng.chance(1, 6)) {
				int64_t d = (int64_t)rng.below(p.cfg.disks.size());
				p.ops.push_back(Json::obj().set("k", "swap").set("d", d).set("f", (int64_t)rng.below(32)).set("g", (int64_t)rng.below(32)));
			}
		}
		CmdSpec s;
		if (rng.chance(1, 4)) s = gen_sync_variant(rng, p.cfg);
		else { s.cmd = "sync"; s = gen_sched(rng, s); if (rng.chance(1, 3)) s.opts.push_back("--test-skip-multi-scan"); }
		s.opts.push_back("-E");
		s.opts.push_back("-Z");
		p.ops.push_back(Json::obj().set("k", "c11_sync").set("spec", s.to_json()).set("dseed", rng.next() >> 1));
	}
	return p;
}

static void op_swap_h(Exec& x, const Json& op, int)
{
	std::string a = x.pick_file(op.num("d"), op.num("f"));
	std::string b = x.pick_file(op.num("d"), op.num("g"));
	if (a.empty() || b.empty() || a == b) return;
	std::string tmp = a + ".swap_tmp";
	x.sb.rename_path(a, tmp);
	x.sb.rename_path(b, a);
	x.sb.rename_path(tmp, b);
}

static struct RegConverge {
	RegConverge()
	{
		Exec::register_op("c11_sync", op_c11_sync);
		Exec::register_op("swap", op_swap_h);
		Family f;
		f.name = "converge";
		f.prop = "C11";
		f.level = "exploration";
		f.gen = gen_converge;
		register_family(f);
	}
} reg_converge;
