// family sched (C13): results do not depend on thread scheduling or I/O cache depth.
// Differential: the same pre-state is processed single-threaded (io cache 1, sequential scan) and then with cache depths
// 3..128 under seeded schedules; parity files, content file, error tags and exit status must be identical. Monitors on every
// threaded run: buffer ownership over the hand-over trace, in-order / exactly-once stripes, deadlock and step bound.
#include <fcntl.h>
#include <unistd.h>
#include <errno.h>
#include <sys/stat.h>
#include "run.hpp"

namespace {

struct Observed {
	int exit_code; int term_sig;
	std::set<std::string> errors;       // error:/parity_error: tags (location part)
	std::map<std::string, uint64_t> parity; // file -> hash of bytes
	uint64_t content = 0;
	std::vector<uint32_t> positions;
	std::set<std::string> scan;        // scan:* tags as a set (add == copy normalised)
	std::set<std::string> copies;      // files the scan took for copies (inherited hashes)
	std::string counts;                // summary:error_file / error_io / error_data
	uint64_t data = 0;
};

Observed observe(Exec& x, const CmdResult& r)
{
	Observed o;
	o.exit_code = r.exit_code;
	o.term_sig = r.term_sig;
	for (auto& t : parse_tags(r.log)) {
		if (t.f.size() >= 3 && t.f[0] == "summary" && starts_with(t.f[1], "error_")) o.counts += t.f[1] + "=" + t.f[2] + " ";
		if (t.f.size() >= 4 && t.f[0] == "error") o.errors.insert("error:" + t.f[1] + ":" + t.f[2] + ":" + t.f[3]);
		if (t.f.size() >= 3 && t.f[0] == "parity_error") o.errors.insert("parity_error:" + t.f[1] + ":" + t.f[2]);
		if (t.f.size() >= 4 && t.f[0] == "scan") {
			std::string kind = t.f[1];
			// a copy whose source is itself new in the same scan is timing dependent by design: add == copy
			if (kind == "copy") { o.scan.insert("add:" + t.f[t.f.size() - 2] + ":" + t.f[t.f.size() - 1]); o.copies.insert(t.f[t.f.size() - 2] + ":" + t.f[t.f.size() - 1]); }
			else if (kind == "add") o.scan.insert("add:" + t.f[2] + ":" + t.f[3]);
			else o.scan.insert(t.raw);
		}
	}
	for (auto& top : x.sb.parity_tops()) {
		Bytes b;
		x.sb.get_file(top + "/parity", b);
		o.parity[top] = hash_str(b);
	}
	Bytes c;
	x.sb.get_file(x.sb.cfg.content[0], c);
	o.content = hash_str(c);
	Snap d = x.sb.snapshot(x.sb.data_tops());
	for (auto& kv : d) {
		bool tool = false;
		for (auto& cf : x.sb.cfg.content) if (kv.first == cf || starts_with(kv.first, cf + ".")) tool = true;
		// directory (and symlink) stamps are the kernel's real clock: only files carry a simulated stamp
		if (!tool) o.data = mix64(o.data, hash_str(kv.first + kv.second.data) + (kv.second.type == 'f' ? (uint64_t)kv.second.mtime_ns : 0));
	}
	return o;
}

} // namespace

static void op_c13_diff(Exec& x, const Json& op, int)
{
	CmdSpec spec = CmdSpec::from_json(op.at("spec"));
	Snap pre = x.sb.snapshot_all();
	int64_t pre_now = x.sb.now_s;
	unsigned pre_idx = x.sb.cmd_index;
	auto reset = [&]() { x.sb.restore_all(pre); x.sb.now_s = pre_now; x.sb.cmd_index = pre_idx; };
	bool early_stop = spec.sig_at_io != 0;

	// reference: no worker threads at all
	CmdSpec ref = spec;
	ref.opts.push_back("--test-io-cache");
	ref.opts.push_back("1");
	ref.opts.push_back("--test-skip-multi-scan");
	bool saved = x.check_parity_every_cmd;
	x.check_parity_every_cmd = !early_stop && spec.faults.empty();
	CmdResult rr = x.cmd(ref);
	if (rr.harness_error) { x.harness("c13 reference"); return; }
	Observed want = observe(x, rr);
	OwnershipReport refown = ownership_monitor(rr);

	struct Var { int depth; int policy; int param; int spurious; uint64_t seed; bool outside; bool multiscan; };
	std::vector<Var> vars;
	Rng r((uint64_t)op.num("seed"));
	static const int depths[] = { 3, 4, 5, 8, 17, 128 };
	if (x.focused()) {
		const Json& f = x.focus();
		vars.push_back({ (int)f.num("depth"), (int)f.num("policy"), (int)f.num("param"), (int)f.num("spurious"), (uint64_t)f.num("seed"), f.num("outside") != 0, f.num("multiscan") != 0 });
	} else {
		int n = (int)op.num("variants", 6);
		for (int i = 0; i < n; ++i) {
			Var v;
			v.depth = depths[r.below(6)];
			if (i == 0) v.depth = 3;
			v.policy = (int)r.below(7);
			v.param = v.policy == SP_STARVE ? (r.chance(1, 2) ? (int)r.below(12) : 100 + (int)r.below(8)) : (int)r.range(1, 12);
			v.spurious = r.chance(1, 2) ? (int)r.range(8, 96) : 0;
			v.seed = r.next() >> 1;
			v.outside = r.chance(1, 3);
			v.multiscan = r.chance(3, 4);
			vars.push_back(v);
		}
	}
	for (auto& v : vars) {
		reset();
		CmdSpec s = spec;
		s.opts.push_back("--test-io-cache");
		s.opts.push_back(strf("%d", v.depth));
		if (v.outside) s.opts.push_back("--test-cond-signal-outside");
		if (!v.multiscan) s.opts.push_back("--test-skip-multi-scan");
		s.sched_seed = v.seed;
		s.policy = v.policy;
		s.policy_param = v.param;
		s.spurious = v.spurious;
		Json focus = Json::obj().set("depth", v.depth).set("policy", v.policy).set("param", v.param).set("spurious", v.spurious).set("seed", v.seed).set("outside", v.outside ? 1 : 0).set("multiscan", v.multiscan ? 1 : 0);
		CmdResult rv = x.cmd(s);
		++x.out.cases;
		if (rv.harness_error) { x.harness("c13 variant"); return; }
		std::string when = spec.cmd + strf(" with io cache %d, policy %d/%d, spurious %d%s%s", v.depth, v.policy, v.param, v.spurious, v.outside ? ", signal outside mutex" : "", v.multiscan ? "" : ", sequential scan");
		if (rv.exit_code == SIM_EXIT_DEADLOCK) { x.violation("C13", "deadlock", when + ": " + rv.info.note, focus); continue; }
		if (rv.exit_code == SIM_EXIT_STEPS) { x.violation("C13", "livelock", when + ": " + rv.info.note, focus); continue; }
		// monitors
		OwnershipReport own = ownership_monitor(rv);
		for (size_t i = 0; i < own.breaches.size() && i < 4; ++i) x.violation("C13", "buffer-ownership", when + ": " + own.breaches[i], focus);
		if (!own.had_events && (spec.cmd == "sync" || spec.cmd == "scrub") && rv.info.threads_created > 0) x.probe("c13.no_handover_events");
		if (rv.info.decisions > 0) { ++x.out.nontrivial_cases; x.out.case_hashes.insert(rv.info.decision_hash); }
		x.probe("c13.threaded_commands");
		x.probe("c13.worker_tasks", own.worker_tasks);
		x.probe("c13.cond_waits", rv.info.cond_waits);
		if (rv.info.max_runnable >= 4) x.probe("c13.four_or_more_runnable");
		if (early_stop) {
			// early stop: the amount of work done legitimately differs with read-ahead; termination and ownership are what is judged
			x.probe("c13.early_stop_cases");
			if (rv.term_sig != 0 && rv.term_sig != 2 && rv.term_sig != 15) x.violation("C13", "crash-on-early-stop", when + strf(": signal %d", rv.term_sig), focus);
			continue;
		}
		Observed got = observe(x, rv);
		if (got.exit_code != want.exit_code) x.violation("C13", "exit-status-differs", when + strf(": exit %d, single-threaded %d", got.exit_code, want.exit_code), focus);
		if (got.counts != want.counts) x.violation("C13", "error-counts-differ", when + ": " + got.counts + "vs single-threaded " + want.counts, focus);
		if (got.errors != want.errors) {
			std::string d;
			for (auto& e : got.errors) if (!want.errors.count(e)) d += "+" + e + " ";
			for (auto& e : want.errors) if (!got.errors.count(e)) d += "-" + e + " ";
			x.violation("C13", "error-set-differs", when + ": " + d.substr(0, 400), focus);
		}
		if (got.parity != want.parity) {
			std::string d;
			for (auto& kv : got.parity) if (want.parity[kv.first] != kv.second) d += kv.first + " ";
			x.violation("C13", "parity-differs", when + ": parity files differ from the single-threaded result: " + d, focus);
		}
		if (got.content != want.content)
			x.violation("C13", "content-differs", when + ": content file differs from the single-threaded result"
				+ (got.copies != want.copies ? " [a new file was taken for a copy in one run and for a plain new file in the other: copy detection across disks depends on the order in which the scan threads meet the source]" : ""), focus);
		if (got.scan != want.scan) {
			std::string d;
			for (auto& e : got.scan) if (!want.scan.count(e)) d += "+" + e + " ";
			for (auto& e : want.scan) if (!got.scan.count(e)) d += "-" + e + " ";
			x.violation("C13", "scan-classification-differs", when + ": " + d.substr(0, 400), focus);
		}
		if (got.data != want.data) x.violation("C13", "data-differs", when + ": data disks differ", focus);
		if (own.had_events && refown.had_events && own.positions != refown.positions)
			x.violation("C13", "stripe-sequence-differs", when + strf(": %zu stripes processed, single-threaded %zu, or in another order", own.positions.size(), refown.positions.size()), focus);
	}
	x.check_parity_every_cmd = saved;
	x.out.nontrivial = x.out.nontrivial_cases > 0;
	if (x.out.sample.type == Json::NUL) {
		Json smp = Json::obj();
		std::string c = spec.cmd;
		for (auto& o : spec.opts) c += " " + o;
		smp.set("family", "sched").set("seed", x.plan->seed).set("command", c).set("variants", (uint64_t)vars.size()).set("stripes", (uint64_t)refown.positions.size())
			.set("disks", (uint64_t)x.sb.cfg.disks.size()).set("parities", x.sb.cfg.np).set("faults", (uint64_t)spec.faults.size()).set("early_stop", early_stop);
		x.out.sample = smp;
	}
}

static RunPlan gen_sched_family(uint64_t seed, int tier)
{
	Rng rng(seed);
	RunPlan p;
	p.family = "sched";
	p.seed = seed;
	p.cfg = gen_config(rng, 6, 6, true);
	// an autosave in the middle of a sync stops and restarts the worker threads: one more hand-over to get right
	p.cfg.autosave_at = rng.chance(1, 4) ? (int)rng.range(1, 8) : 0;
	for (auto& o : gen_populate(rng, p.cfg, 1, 6)) p.ops.push_back(o);
	int kind = (int)rng.below(10);
	bool have_base = kind >= 3;
	if (have_base) {
		CmdSpec base;
		base.cmd = "sync";
		base = ::gen_sched(rng, base);
		p.ops.push_back(op_cmd(base, "ok"));
		for (auto& o : gen_mutations(rng, p.cfg, (int)rng.range(1, 7))) p.ops.push_back(o);
	}
	CmdSpec s;
	if (kind == 9 && have_base) {
		// scrub of a (re)synced array
		CmdSpec again;
		again.cmd = "sync";
		again.opts = { "-E", "-Z" };
		p.ops.push_back(op_cmd(::gen_sched(rng, again)));
		s.cmd = "scrub";
		s.opts = { "-p", "full" };
	} else if (kind == 8 && have_base) {
		// scrub of an array with files changed since the sync AND silent errors: which stripe is an "expected difference" and
		// which a silent error must not depend on the ring size or the schedule
		int n = (int)rng.range(1, 4);
		for (int i = 0; i < n; ++i) p.ops.push_back(Json::obj().set("k", "silent").set("d", (int64_t)rng.below(p.cfg.disks.size())).set("f", (int64_t)rng.below(16)).set("at", rng.next() >> 8));
		if (rng.chance(1, 2)) p.ops.push_back(Json::obj().set("k", "touch").set("d", (int64_t)rng.below(p.cfg.disks.size())).set("f", 0));
		s.cmd = "scrub";
		s.opts = { "-p", "full" };
	} else {
		s.cmd = "sync";
		s.opts = { "-E", "-Z" };
		if (rng.chance(1, 6)) s.opts.push_back("-F");
		if (rng.chance(1, 8)) s.opts.push_back("-h");
		if (rng.chance(1, 6)) { s.opts.push_back("-B"); s.opts.push_back(strf("%d", (int)rng.range(1, 9))); }
		if (rng.chance(1, 8)) { s.opts.push_back("--bw-limit"); s.opts.push_back("200k"); }
	}
	// optional faults addressed by logical identity
	int fk = (int)rng.below(8);
	if (fk == 0) {
		// EIO reading some block of some file (whatever file sorts first on a disk)
		Fault f;
		f.f.kind = FK_ERRNO;
		f.f.opmask = OPC_PREAD;
		snprintf(f.f.path, sizeof(f.f.path), "d%d/*", (int)rng.range(1, (int64_t)p.cfg.disks.size()));
		f.f.off_lo = 0; f.f.off_hi = 0;
		f.f.nth = (int)rng.below(6);
		f.f.err = EIO;
		f.f.count = 1;
		// a read error addressed by "n-th read of the disk" is schedule dependent with read-ahead only in *which* request
		// is n-th if several files are open; reads of one disk are issued by one thread in stripe order, so it is stable
		s.faults.push_back(f);
	} else if (fk == 2 && s.cmd == "sync") {
		// EIO on the n-th write of one parity file (writes of one parity are issued by one thread in stripe order)
		Fault f;
		f.f.kind = FK_ERRNO;
		f.f.opmask = OPC_PWRITE;
		snprintf(f.f.path, sizeof(f.f.path), "p%ds0/parity", (int)rng.below(p.cfg.np));
		f.f.nth = (int)rng.below(5);
		f.f.err = EIO;
		f.f.count = 1;
		s.faults.push_back(f);
		if (rng.chance(1, 3)) { s.opts.push_back("-L"); s.opts.push_back(strf("%d", (int)rng.range(2, 6))); }
	} else if (fk == 1) {
		s.sig_at_io = (unsigned)rng.range(1, 30);
		s.sig_no = rng.chance(1, 2) ? 2 : 15;
	}
	p.ops.push_back(Json::obj().set("k", "c13_diff").set("spec", s.to_json()).set("seed", rng.next() >> 1).set("variants", tier ? 16 : 6));
	return p;
}

static struct RegSched {
	RegSched()
	{
		Exec::register_op("c13_diff", op_c13_diff);
		Family f;
		f.name = "sched";
		f.prop = "C13";
		f.level = "exploration";
		f.gen = gen_sched_family;
		register_family(f);
	}
} reg_sched;
