// family decoy (C19): move, copy and import shortcuts never accept unverified data.
// Decoys = files sharing name (or path), size and time-stamp with a fully hashed file but not its content.
#include <fcntl.h>
#include <unistd.h>
#include <sys/stat.h>
#include "run.hpp"

// a decoy of (d, sub): same base name (or same path on another disk), same size and stamp, other bytes
static void op_decoy(Exec& x, const Json& op, int)
{
	std::string src = x.disk_top(op.num("d")) + "/" + op.str("sub");
	Bytes b;
	uint64_t sz; int64_t s, ns;
	if (!x.sb.get_file(src, b) || !x.sb.stat_file(src, sz, s, ns) || b.empty()) return;
	std::string top2 = x.disk_top(op.num("d2"));
	std::string sub = op.str("sub");
	std::string base = sub.substr(sub.rfind('/') == std::string::npos ? 0 : sub.rfind('/') + 1);
	std::string rel;
	if (op.num("same_path")) { if (top2 == x.disk_top(op.num("d"))) return; rel = top2 + "/" + sub; }
	else rel = top2 + "/" + op.str("dir") + "/" + base;
	if (x.sb.exists(rel)) return;
	Bytes d = gen_bytes((uint64_t)op.num("seed"), b.size());
	int how = (int)op.num("how");
	if (how == 1) { d = b; d[d.size() / 2] = (char)(d[d.size() / 2] ^ 0x40); }          // one byte differs
	else if (how == 2 && b.size() > x.sb.cfg.block_size()) { d = b; d[b.size() - 1] = (char)(d[b.size() - 1] + 1); } // only the last block differs
	if (d == b) d[0] = (char)(d[0] ^ 1);
	x.sb.put_file(rel, d, s, ns, true);
	Json lst = x.vars.count("decoys") ? x.vars["decoys"] : Json::arr();
	lst.push(rel);
	x.vars["decoys"] = lst;
	x.probe("c19.decoys_planted");
}

// a synced file A goes away and a new file B of the same size takes over its positions; the old bytes are remembered
static void op_c19_replace_pending(Exec& x, const Json& op, int)
{
	std::string src = x.disk_top(op.num("d")) + "/" + op.str("sub");
	Bytes a;
	if (!x.sb.get_file(src, a) || a.empty()) return;
	x.sb.remove_path(src);
	Bytes b = gen_bytes((uint64_t)op.num("seed"), a.size());
	if (b == a) b[0] = (char)(b[0] ^ 1);
	int64_t s, ns;
	x.sb.next_stamp(s, ns);
	std::string rel = x.disk_top(op.num("d")) + "/" + op.str("name");
	x.sb.put_file(rel, b, s, ns, true);
	x.vars["c19_old_bytes"] = Json(a);
	x.vars["c19_pending_rel"] = Json(rel);
	x.probe("c19.pending_file_over_old_positions");
}

// the old bytes of A turn up with the name, size and stamp of the (still pending) file B: in the import directory and on another disk
static void op_c19_old_sources(Exec& x, const Json& op, int)
{
	if (!x.vars.count("c19_pending_rel")) return;
	std::string rel = x.vars["c19_pending_rel"].s;
	Bytes a = x.vars["c19_old_bytes"].s;
	uint64_t sz; int64_t s, ns;
	if (!x.sb.stat_file(rel, sz, s, ns) || sz != a.size()) return;
	std::string base = rel.substr(rel.rfind('/') + 1);
	Json lst = x.vars.count("decoys") ? x.vars["decoys"] : Json::arr();
	if (op.num("imp")) x.sb.put_file("imp/" + base, a, s, ns, true);
	if (op.num("other_disk")) {
		std::string top2 = x.disk_top(op.num("d2"));
		std::string r2 = top2 + "/old copy/" + base;
		if (top2 != rel.substr(0, rel.find('/')) && !x.sb.exists(r2)) { x.sb.put_file(r2, a, s, ns, true); lst.push(r2); }
	}
	x.vars["decoys"] = lst;
	x.probe("c19.old_data_offered_for_pending_file");
}

static void op_c19_sync(Exec& x, const Json& op, int)
{
	CmdSpec spec = CmdSpec::from_json(op.at("spec"));
	std::map<std::string, Bytes> parity_before;
	for (auto& t : x.sb.parity_tops()) { Bytes b; x.sb.get_file(t + "/parity", b); parity_before[t] = b; }
	bool nocopy = std::find(spec.opts.begin(), spec.opts.end(), std::string("-N")) != spec.opts.end();
	bool prehash = std::find(spec.opts.begin(), spec.opts.end(), std::string("-h")) != spec.opts.end();
	// decoys an earlier (refused or partial) sync already recorded with inherited, never verified hashes: on a retry the scan
	// no longer announces them as copies, the danger is the same
	std::set<std::string> pending_decoys;
	{
		std::set<std::string> known;
		if (x.vars.count("decoys")) for (auto& d : x.vars["decoys"].a) known.insert(d.s);
		std::vector<LoadedContent> cs0 = load_contents(x.sb);
		const LoadedContent* l0 = first_good(cs0);
		if (l0) for (auto& f : l0->c.files) {
			const DiskCfg* dk = x.sb.disk(l0->c.maps[f.map_idx].name);
			if (!dk || !known.count(dk->top + "/" + f.sub)) continue;
			for (auto& b : f.blocks) if (b.state == BS_REP) { pending_decoys.insert(dk->top + "/" + f.sub); break; }
		}
	}
	CmdResult r = x.cmd(spec); // always-on: parity oracle + reference hash of every recorded block
	if (r.harness_error) { x.harness("c19 sync"); return; }
	++x.out.cases;
	std::vector<Tag> tags = parse_tags(r.log);
	// which decoys did the scan take for copies?
	std::set<std::string> decoys;
	if (x.vars.count("decoys")) for (auto& d : x.vars["decoys"].a) decoys.insert(d.s);
	std::set<std::string> taken;
	for (auto& t : tags) if (t.f.size() >= 6 && t.f[0] == "scan" && t.f[1] == "copy") {
		const DiskCfg* dk = x.sb.disk(t.f[4]);
		if (dk && decoys.count(dk->top + "/" + t.f[5])) taken.insert(dk->top + "/" + t.f[5]);
	}
	std::string cl = "sync";
	for (auto& o : spec.opts) cl += " " + o;
	cl += strf(" (exit %d)", r.exit_code);
	if (!pending_decoys.empty()) x.probe("c19.retry_with_recorded_decoy", pending_decoys.size());
	std::set<std::string> fresh = taken;
	// (--force-nocopy discards hashes inherited by earlier runs when it loads the content: the file is then hashed as new data)
	if (!nocopy) for (auto& d : pending_decoys) taken.insert(d);
	if (!taken.empty()) {
		++x.out.nontrivial_cases;
		x.out.nontrivial = true;
		x.out.case_hashes.insert(mix64(x.plan->seed, x.out.cases));
		x.probe("c19.decoy_taken_for_copy", taken.size());
		if (nocopy && !fresh.empty()) x.violation("C19", "nocopy-ignored", cl + ": --force-nocopy given but the scan inherited hashes for " + *fresh.begin());
		// the data is hashed before the stripe is recorded: a mismatch is an error and a failing status
		bool partial = false;
		for (auto& o : spec.opts) if (o == "-B" || o == "-S") partial = true;
		std::set<std::string> reported;
		for (auto& t : tags) if (t.f.size() >= 4 && t.f[0] == "error") { const DiskCfg* dk = x.sb.disk(t.f[2]); if (dk) reported.insert(dk->top + "/" + t.f[3]); }
		for (auto& d : taken) {
			if (reported.count(d)) { x.probe("c19.decoy_reported"); continue; }
			if (!partial && r.exit_code == 0) x.violation("C19", "decoy-accepted-silently", cl + ": " + d + " was taken for a copy, its bytes do not match the inherited hashes, and sync neither reported it nor failed");
		}
		if (!reported.empty() && r.exit_code == 0) x.violation("C19", "decoy-error-exit-ok", cl + ": data mismatch reported but the exit status is 0");
		if (prehash && !reported.empty()) {
			// the whole sync stops before any parity is overwritten
			for (auto& t : x.sb.parity_tops()) {
				Bytes b;
				x.sb.get_file(t + "/parity", b);
				size_t n = std::min(b.size(), parity_before[t].size());
				if (memcmp(b.data(), parity_before[t].data(), n) != 0) { x.violation("C19", "prehash-parity-overwritten", cl + ": pre-hash found the mismatch but " + t + "/parity was modified"); break; }
			}
			x.probe("c19.prehash_stops");
		}
	}
	Json s = Json::obj();
	s.set("family", "decoy").set("seed", x.plan->seed).set("command", cl).set("decoys", (uint64_t)decoys.size()).set("taken_for_copy", (uint64_t)taken.size());
	x.out.sample = s;
}

static RunPlan gen_decoy(uint64_t seed, int tier)
{
	Rng rng(seed);
	RunPlan p;
	p.family = "decoy";
	p.seed = seed;
	p.cfg = gen_config(rng, 4, 3, true);
	while (p.cfg.disks.size() < 2) { DiskCfg d; d.name = strf("d%zu", p.cfg.disks.size() + 1); d.top = d.name; p.cfg.disks.push_back(d); }
	p.cfg.hash_size = 16;
	p.cfg.autosave_at = 0;
	(void)tier;
	unsigned bs = p.cfg.block_size();
	size_t nd = p.cfg.disks.size();
	int nsrc = (int)rng.range(1, 4);
	std::vector<std::pair<int64_t, std::string>> srcs;
	for (int i = 0; i < nsrc; ++i) {
		int64_t d = (int64_t)rng.below(nd);
		std::string sub = strf("keep%d/%s", i, rng.chance(1, 2) ? "movie.bin" : "da ta:1");
		bool zns = rng.chance(1, 3);
		p.ops.push_back(Json::obj().set("k", "create").set("d", d).set("name", sub).set("size", rng.range(1, 6) * bs - (rng.chance(1, 2) ? rng.range(0, bs - 1) : 0)).set("seed", rng.next() >> 1).set("zns", zns ? 1 : 0));
		srcs.push_back({ d, sub });
	}
	for (auto& o : gen_populate(rng, p.cfg, 0, 2)) p.ops.push_back(o);
	CmdSpec base;
	base.cmd = "sync";
	p.ops.push_back(op_cmd(gen_sched(rng, base), "ok"));
	// sometimes the source is only partially hashed when the decoy appears (new source + partial sync)
	if (rng.chance(1, 5)) {
		int64_t d = (int64_t)rng.below(nd);
		p.ops.push_back(Json::obj().set("k", "create").set("d", d).set("name", "late/source").set("size", rng.range(3, 6) * bs).set("seed", rng.next() >> 1));
		CmdSpec ps; ps.cmd = "sync"; ps.opts = { "-B", "2" };
		p.ops.push_back(op_cmd(gen_sched(rng, ps)));
		srcs.push_back({ d, "late/source" });
	}
	int scenario = (int)rng.below(4);
	if (scenario == 3) {
		// a file that is still pending (its blocks carry the hashes of the previous occupant of the positions) is lost while
		// the previous occupant's bytes are on offer under the lost file's name, size and stamp
		auto& s = srcs[rng.below(srcs.size())];
		std::string name = "pend/" + s.second.substr(s.second.rfind('/') + 1);
		p.ops.push_back(Json::obj().set("k", "c19_replace_pending").set("d", s.first).set("sub", s.second).set("name", name).set("seed", rng.next() >> 1));
		CmdSpec ps;
		ps.cmd = "sync";
		ps.opts = { "-E", "-Z" };
		if (rng.chance(1, 2)) { ps.sig_at_io = 1; ps.sig_no = 2; } else { ps.opts.push_back("-S"); ps.opts.push_back("1000000"); }
		p.ops.push_back(op_cmd(gen_sched(rng, ps)));
		int how = (int)rng.below(3);
		p.ops.push_back(Json::obj().set("k", "c19_old_sources").set("imp", how != 1 ? 1 : 0).set("other_disk", how != 0 ? 1 : 0).set("d2", (int64_t)rng.below(nd)));
		p.ops.push_back(Json::obj().set("k", "delete").set("d", s.first).set("sub", name));
		CmdSpec f;
		f.cmd = rng.chance(1, 6) ? "check" : "fix";
		if (how != 1) { f.opts.push_back(rng.chance(1, 2) ? "-i" : "--test-import-content"); f.opts.push_back("@IMP@"); }
		p.ops.push_back(Json::obj().set("k", "c05_fix").set("as", "C19").set("spec", gen_sched(rng, f).to_json()));
		return p;
	}
	if (scenario <= 1) {
		// decoys (and honest copies) appear, then sync variants
		int nde = (int)rng.range(1, 3);
		for (int i = 0; i < nde; ++i) {
			auto& s = srcs[rng.below(srcs.size())];
			p.ops.push_back(Json::obj().set("k", "decoy").set("d", s.first).set("sub", s.second).set("d2", (int64_t)rng.below(nd)).set("same_path", (int)rng.below(2)).set("dir", strf("decoy%d", i)).set("seed", rng.next() >> 1).set("how", (int)rng.below(3)));
		}
		if (rng.chance(1, 2)) { auto& s = srcs[rng.below(srcs.size())]; p.ops.push_back(Json::obj().set("k", "copy").set("d", s.first).set("sub", s.second).set("d2", (int64_t)rng.below(nd)).set("name", "honest/" + s.second.substr(s.second.rfind('/') + 1))); }
		if (rng.chance(1, 3)) for (auto& o : gen_mutations(rng, p.cfg, 2)) p.ops.push_back(o);
		int syncs = (int)rng.range(1, 3);
		for (int k = 0; k < syncs; ++k) {
			CmdSpec s;
			s.cmd = "sync";
			s.opts = { "-E", "-Z" };
			switch (rng.below(7)) {
			case 0: s.opts.push_back("-h"); break;
			case 1: s.opts.push_back("-N"); break;
			case 2: s.opts.push_back("-B"); s.opts.push_back(strf("%d", (int)rng.range(1, 4))); break;
			case 3: s.opts.push_back("--test-kill-after-sync"); break;
			case 4: s.opts.push_back("--test-io-cache"); s.opts.push_back("1"); break;
			default: break;
			}
			p.ops.push_back(Json::obj().set("k", "c19_sync").set("spec", gen_sched(rng, s).to_json()));
			// the user retries the refused command
			if (std::find(s.opts.begin(), s.opts.end(), std::string("-h")) != s.opts.end() && rng.chance(1, 2))
				p.ops.push_back(Json::obj().set("k", "c19_sync").set("spec", gen_sched(rng, s).to_json()));
		}
	}
	if (scenario >= 1) {
		// a recorded file is lost while decoys sit on other disks and in the import directory; parity may be gone too
		auto& s = srcs[rng.below(srcs.size())];
		if (scenario == 2) p.ops.push_back(Json::obj().set("k", "decoy").set("d", s.first).set("sub", s.second).set("d2", (int64_t)rng.below(nd)).set("same_path", (int)rng.below(2)).set("dir", "decoyX").set("seed", rng.next() >> 1).set("how", (int)rng.below(3)));
		p.ops.push_back(Json::obj().set("k", "import_decoys").set("d", s.first).set("sub", s.second).set("seed", rng.next() >> 1).set("honest", (int)rng.below(2)));
		p.ops.push_back(Json::obj().set("k", "delete").set("d", s.first).set("sub", s.second));
		if (rng.chance(1, 2)) p.ops.push_back(Json::obj().set("k", "lose_parity").set("all", (int)rng.below(2)));
		CmdSpec f;
		f.cmd = rng.chance(1, 5) ? "check" : "fix";
		if (rng.chance(1, 2)) { f.opts.push_back("-i"); f.opts.push_back("@IMP@"); }
		else if (rng.chance(1, 3)) { f.opts.push_back("--test-import-content"); f.opts.push_back("@IMP@"); }
		if (rng.chance(1, 6)) f.opts.push_back("-N");
		p.ops.push_back(Json::obj().set("k", "c05_fix").set("as", "C19").set("spec", gen_sched(rng, f).to_json()));
	}
	return p;
}

static void op_import_decoys(Exec& x, const Json& op, int)
{
	std::string src = x.disk_top(op.num("d")) + "/" + op.str("sub");
	Bytes b;
	uint64_t sz; int64_t s, ns;
	if (!x.sb.get_file(src, b) || !x.sb.stat_file(src, sz, s, ns) || b.empty()) return;
	std::string base = op.str("sub").substr(op.str("sub").rfind('/') + 1);
	Bytes d = gen_bytes((uint64_t)op.num("seed"), b.size());
	if (d == b) d[0] = (char)(d[0] ^ 1);
	x.sb.put_file("imp/" + base, d, s, ns, true);                 // same name, size, stamp: wrong bytes
	Bytes d2 = b;
	d2[d2.size() - 1] = (char)(d2[d2.size() - 1] ^ 0x80);
	x.sb.put_file("imp/almost_" + base, d2, s, ns, true);          // all blocks but the last are right
	if (op.num("honest")) x.sb.put_file("imp/sub/honest copy", b, s + 5, ns, true); // a true copy under another name
	x.probe("c19.import_dir_populated");
}

static void op_lose_parity(Exec& x, const Json& op, int)
{
	for (int l = 0; l < x.sb.cfg.np; ++l) {
		if (!op.num("all") && l > 0) break;
		for (int s = 0; s < x.sb.cfg.splits[(size_t)l]; ++s) x.sb.remove_path(x.sb.cfg.parity_rel(l, s));
	}
	x.probe("c19.parity_lost");
}

static struct RegDecoy {
	RegDecoy()
	{
		Exec::register_op("decoy", op_decoy);
		Exec::register_op("c19_sync", op_c19_sync);
		Exec::register_op("c19_replace_pending", op_c19_replace_pending);
		Exec::register_op("c19_old_sources", op_c19_old_sources);
		Exec::register_op("import_decoys", op_import_decoys);
		Exec::register_op("lose_parity", op_lose_parity);
		Family f;
		f.name = "decoy";
		f.prop = "C19";
		f.level = "exploration";
		f.gen = gen_decoy;
		register_family(f);
	}
} reg_decoy;
