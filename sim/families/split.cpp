// family split (C17): a parity level split over several files behaves as one parity.
// Twin arrays over the SAME data directories (sync never writes there): A with one file per level, B with 2-8 files per level
// whose sizes are limited by --test-parity-limit or by per-device byte budgets enforced by the file layer (real ENOSPC).
#include <fcntl.h>
#include <unistd.h>
#include <sys/stat.h>
#include "run.hpp"

std::vector<std::string> compare_with_synced(Exec& x, const Snap& want, bool allow_mtime_collision_rule);

namespace {

bool has_b(const Exec& x) { return x.vars.count("cfgB") != 0; }
Config cfg_b_of(const Exec& x) { return Config::from_json(x.vars.at("cfgB")); }

struct Twin {
	Config a, b;
};

// positions of every file identical in both arrays?
bool same_layout(const Content& a, const Content& b)
{
	if (a.blockmax != b.blockmax || a.files.size() != b.files.size()) return false;
	std::map<std::string, const CFile*> m;
	for (auto& f : a.files) m[a.maps[f.map_idx].name + "|" + f.sub] = &f;
	for (auto& f : b.files) {
		auto it = m.find(b.maps[f.map_idx].name + "|" + f.sub);
		if (it == m.end() || it->second->blocks.size() != f.blocks.size()) return false;
		for (size_t i = 0; i < f.blocks.size(); ++i) if (f.blocks[i].pos != it->second->blocks[i].pos || f.blocks[i].state != it->second->blocks[i].state) return false;
	}
	return true;
}

const LoadedContent* load_first(const Sandbox& sb, std::vector<LoadedContent>& store)
{
	store = load_contents(sb);
	return first_good(store);
}

} // namespace

// sync both arrays, then compare
static void op_c17_round(Exec& x, const Json& op, int)
{
	if (!has_b(x)) return;
	Config A = x.sb.cfg; // the executor's configuration is A
	Config B = cfg_b_of(x);
	uint64_t sseed = (uint64_t)op.num("seed");
	// ---- A
	CmdSpec sa;
	sa.cmd = "sync";
	sa.opts = { "-E", "-Z" };
	sa.sched_seed = sseed;
	CmdResult ra = x.cmd(sa);
	std::vector<LoadedContent> sta;
	const LoadedContent* la = load_first(x.sb, sta);
	std::map<int, Bytes> parity_a;
	for (int l = 0; l < A.np; ++l) x.sb.get_file(A.parity_rel(l, 0), parity_a[l]);
	// ---- B (same data, split parity)
	x.sb.cfg = B;
	x.sb.write_conf();
	std::map<std::string, uint64_t> sizes_before;
	for (int l = 0; l < B.np; ++l) for (int s = 0; s < B.splits[(size_t)l]; ++s) { Bytes b; x.sb.get_file(B.parity_rel(l, s), b); sizes_before[B.parity_rel(l, s)] = b.size(); }
	std::vector<LoadedContent> stb0;
	const LoadedContent* lb0 = load_first(x.sb, stb0);
	Bytes content_b_before = lb0 ? lb0->raw : Bytes();
	CmdSpec sbs = sa;
	sbs.sched_seed = sseed + 1;
	CmdResult rb = x.cmd(sbs); // always-on: parity oracle through the recorded split sizes, write policy
	++x.out.cases;
	std::string cl = strf("split sync (exit %d, limit %lld)", rb.exit_code, (long long)B.parity_limit);
	bool refused = false;
	if (rb.exit_code != 0 && rb.err.find("nsufficient parity space") != std::string::npos) {
		// documented refusal when every split of a level is exhausted: nothing saved, still consistent, works once space is there
		x.probe("c17.insufficient_space_refusals");
		refused = true;
		std::vector<LoadedContent> stb1;
		const LoadedContent* lb1 = load_first(x.sb, stb1);
		Bytes after = lb1 ? lb1->raw : Bytes();
		if (after != content_b_before) x.violation("C17", "refused-sync-saved-content", cl + ": the content file changed although the sync was refused for lack of parity space");
		B.parity_limit = 0;
		B.budgets.clear();
		x.sb.cfg = B;
		x.vars["cfgB"] = B.to_json();
		x.sb.register_devices_keep_vinos();
		x.sb.write_conf();
		CmdSpec again = sbs;
		again.sched_seed = sseed + 2;
		rb = x.cmd(again);
		if (rb.exit_code != 0) x.violation("C17", "sync-fails-with-space", cl + strf(": with the limit removed sync still exits %d: ", rb.exit_code) + rb.err.substr(0, 200));
	}
	std::vector<LoadedContent> stb;
	const LoadedContent* lb = load_first(x.sb, stb);
	if (ra.exit_code == 0 && rb.exit_code == 0 && la && lb) {
		const Content& cb = lb->c;
		// recorded split sizes: block multiples, files at least that long, only the last used split may be partly filled
		for (auto& p : cb.parities) {
			if (!p.v3) continue;
			int l = (int)p.level;
			if (l >= B.np) continue;
			bool seen_short = false;
			uint64_t total = 0;
			for (size_t s = 0; s < p.splits.size() && (int)s < B.splits[(size_t)l]; ++s) {
				uint64_t rs = p.splits[s].size;
				if (rs % cb.block_size) x.violation("C17", "split-size-not-block-multiple", cl + strf(": level %d split %zu recorded size %llu", l, s, (unsigned long long)rs));
				Bytes fb;
				x.sb.get_file(B.parity_rel(l, (int)s), fb);
				if (fb.size() < rs) x.violation("C17", "split-file-shorter-than-recorded", cl + strf(": level %d split %zu has %zu bytes, recorded %llu", l, s, fb.size(), (unsigned long long)rs));
				if (seen_short && rs != 0) x.violation("C17", "split-after-unfilled-split-used", cl + strf(": level %d split %zu is used although an earlier split is empty", l, s));
				if (rs == 0) seen_short = true;
				total += rs;
				// growth only at the end: a split that was already followed by a used split keeps its size
				// only the last used split grows: a split that was and still is followed by a used split keeps its recorded size
				if (lb0 && !refused) {
					const CParity* p0 = nullptr;
					for (auto& q : lb0->c.parities) if (q.level == p.level && q.v3) p0 = &q;
					if (p0 && s + 1 < p0->splits.size() && s + 1 < p.splits.size() && p0->splits[s + 1].size != 0 && p.splits[s + 1].size != 0 && p0->splits[s].size != rs)
						x.violation("C17", "inner-split-changed-size", cl + strf(": level %d split %zu went from %llu to %llu although the next split was and is in use", l, s, (unsigned long long)p0->splits[s].size, (unsigned long long)rs));
					if (p0 && s < p0->splits.size() && p0->splits[s].size != rs) x.probe(rs > p0->splits[s].size ? "c17.split_grew" : "c17.split_shrank");
				}
			}
			if (total < (uint64_t)cb.blockmax * cb.block_size) x.violation("C17", "splits-do-not-cover-the-array", cl + strf(": level %d recorded sizes sum to %llu, array needs %llu", l, (unsigned long long)total, (unsigned long long)cb.blockmax * cb.block_size));
			unsigned used_splits = 0;
			for (auto& sp : p.splits) if (sp.size) ++used_splits;
			if (used_splits > 1) x.probe("c17.levels_spanning_several_files");
		}
		// concatenation of the splits == the single file parity, on the used range
		if (same_layout(la->c, cb)) {
			for (int l = 0; l < B.np && l < A.np; ++l) {
				Bytes cat;
				const CParity* pp = nullptr;
				for (auto& p : cb.parities) if ((int)p.level == l) pp = &p;
				if (!pp || !pp->v3) continue;
				for (size_t s = 0; s < pp->splits.size() && (int)s < B.splits[(size_t)l]; ++s) {
					Bytes fb;
					x.sb.get_file(B.parity_rel(l, (int)s), fb);
					cat += fb.substr(0, (size_t)std::min<uint64_t>(fb.size(), pp->splits[s].size));
				}
				uint64_t need = (uint64_t)cb.blockmax * cb.block_size;
				// only stripes with at least one file carry defined parity
				StripeMap sm = build_stripes(cb);
				for (uint32_t pos = 0; pos < cb.blockmax; ++pos) {
					bool used = false;
					for (auto& b : sm.at[pos]) if (b.file_idx >= 0) used = true;
					if (!used) continue;
					uint64_t off = (uint64_t)pos * cb.block_size;
					if (off + cb.block_size > cat.size() || off + cb.block_size > parity_a[l].size() || memcmp(cat.data() + off, parity_a[l].data() + off, cb.block_size) != 0) {
						x.violation("C17", "split-parity-differs-from-single-file", cl + strf(": level %d position %u differs from the unsplit twin", l, pos));
						break;
					}
				}
				(void)need;
			}
			x.probe("c17.twin_comparisons");
			++x.out.nontrivial_cases;
			x.out.nontrivial = true;
			x.out.case_hashes.insert(hash_str(lb->raw));
		} else
			x.probe("c17.twins_diverged");
	}
	// back to A
	x.sb.cfg = A;
	x.sb.write_conf();
	Json smp = Json::obj();
	smp.set("family", "split").set("seed", x.plan->seed).set("splits_per_level", B.splits.empty() ? 0 : B.splits[0]).set("parity_limit", B.parity_limit).set("budgets", (uint64_t)B.budgets.size()).set("exit_a", ra.exit_code).set("exit_b", rb.exit_code);
	x.out.sample = smp;
}

// lose split files of B and fix; C01 oracle on B
static void op_c17_fix(Exec& x, const Json& op, int)
{
	if (!has_b(x)) return;
	Config A = x.sb.cfg;
	Config B = cfg_b_of(x);
	x.sb.cfg = B;
	x.sb.write_conf();
	Snap data = x.sb.snapshot(x.sb.data_tops());
	Rng r((uint64_t)op.num("seed"));
	std::vector<LoadedContent> st;
	const LoadedContent* lb = load_first(x.sb, st);
	bool synced = lb != nullptr;
	if (lb) for (auto& f : lb->c.files) for (auto& b : f.blocks) if (b.state != BS_BLK) synced = false;
	if (synced) {
		int l = (int)r.below((uint64_t)B.np);
		int s = (int)r.below((uint64_t)B.splits[(size_t)l]);
		std::string what;
		if (r.chance(1, 2)) { x.sb.remove_path(B.parity_rel(l, s)); what = "split file " + B.parity_rel(l, s) + " lost"; }
		else if (!B.disks.empty()) {
			// a data disk is lost instead: rebuilt through the split map
			const DiskCfg& d = B.disks[r.below(B.disks.size())];
			bool has_content = false;
			for (auto& c : B.content) if (starts_with(c, d.top + "/")) has_content = true;
			if (!has_content) { rm_rf(x.sb.abs(d.top)); mkdir(x.sb.abs(d.top).c_str(), 0755); what = "disk " + d.name + " lost"; }
		}
		if (!what.empty()) {
			CmdSpec fx;
			fx.cmd = "fix";
			fx.sched_seed = r.next() >> 1;
			bool saved = x.check_parity_every_cmd;
			x.check_parity_every_cmd = false;
			CmdResult rf = x.cmd(fx);
			x.check_parity_every_cmd = saved;
			if (rf.exit_code != 0) x.violation("C17", "fix-failed-on-split-parity", what + strf(": fix exit %d: ", rf.exit_code) + rf.err.substr(0, 200));
			std::vector<std::string> d = compare_with_synced(x, data, true);
			if (!d.empty()) x.violation("C17", "not-restored-through-split-map", what + ": " + d[0]);
			x.check_parity_invariant("after fix on split parity (" + what + ")");
			CmdResult ck = x.simple("check");
			if (ck.exit_code != 0) x.violation("C17", "check-after-fix-on-split", what + strf(": check exit %d", ck.exit_code));
			x.probe("c17.fix_rounds");
		}
	}
	x.sb.cfg = A;
	x.sb.write_conf();
}

// change the number of configured splits of B: drop unused trailing ones, try to drop a used one (documented refusal), add new ones
static void op_c17_trim(Exec& x, const Json& op, int)
{
	if (!has_b(x)) return;
	Config A = x.sb.cfg;
	Config B = cfg_b_of(x);
	Rng r((uint64_t)op.num("seed"));
	x.sb.cfg = B;
	x.sb.write_conf();
	std::vector<LoadedContent> st;
	const LoadedContent* lb = load_first(x.sb, st);
	if (lb) {
		int l = (int)r.below((uint64_t)B.np);
		const CParity* pp = nullptr;
		for (auto& p : lb->c.parities) if ((int)p.level == l && p.v3) pp = &p;
		int used = 0;
		if (pp) for (size_t s = 0; s < pp->splits.size(); ++s) if (pp->splits[s].size) used = (int)s + 1;
		int have = B.splits[(size_t)l];
		int mode = (int)r.below(3);
		if (mode == 0 && pp && used >= 2 && have >= used) {
			// a used split removed from the configuration: every command must refuse and leave everything alone
			Config C = B;
			C.splits[(size_t)l] = used - 1;
			x.sb.cfg = C;
			x.sb.write_conf();
			Bytes before = lb->raw;
			std::map<std::string, Bytes> par;
			for (int s = 0; s < have; ++s) x.sb.get_file(B.parity_rel(l, s), par[B.parity_rel(l, s)]);
			bool saved = x.check_parity_every_cmd;
			x.check_parity_every_cmd = false;
			CmdSpec sy;
			sy.cmd = r.chance(1, 2) ? "sync" : "fix";
			sy.sched_seed = r.next() >> 1;
			CmdResult rr = x.cmd(sy);
			x.check_parity_every_cmd = saved;
			++x.out.cases;
			if (rr.exit_code == 0) x.violation("C17", "used-split-removed-accepted", strf("level %d configured with %d files although %d are in use: ", l, used - 1, used) + sy.cmd + " exits 0");
			std::vector<LoadedContent> st2;
			const LoadedContent* l2 = load_first(x.sb, st2);
			if (!l2 || l2->raw != before) x.violation("C17", "used-split-removed-changed-content", "the content file changed although the command was refused");
			for (auto& kv : par) { Bytes now; x.sb.get_file(kv.first, now); if (now != kv.second) x.violation("C17", "used-split-removed-changed-parity", kv.first + " changed although the command was refused"); }
			x.probe("c17.used_split_removed_refusals");
			x.sb.cfg = B;
			x.sb.write_conf();
		} else if (mode == 1 && pp && have > std::max(used, 1)) {
			B.splits[(size_t)l] = (int)r.range((uint64_t)std::max(used, 1), (uint64_t)have - 1);
			x.probe("c17.unused_trailing_splits_dropped");
		} else if (have < 8) {
			// the directories of every possible split exist from the start
			B.splits[(size_t)l] = have + 1;
			x.probe("c17.split_added");
		}
		x.vars["cfgB"] = B.to_json();
	}
	x.sb.cfg = A;
	x.sb.write_conf();
}

static RunPlan gen_split(uint64_t seed, int tier)
{
	Rng rng(seed);
	RunPlan p;
	p.family = "split";
	p.seed = seed;
	Config A = gen_config(rng, 4, 3, false);
	A.autosave_at = 0;
	// content copies outside the data disks (the twin's copies must not be scanned as data)
	A.content.clear();
	for (int k = 0; k < A.np + 1; ++k) A.content.push_back(strf("c%d/content", k));
	Config B = A;
	B.parity_prefix = 'q';
	B.content.clear();
	for (int k = 0; k < A.np + 1; ++k) B.content.push_back(strf("e%d/content", k));
	for (int l = 0; l < B.np; ++l) B.splits[(size_t)l] = (int)rng.range(2, tier ? 8 : 5);
	unsigned bs = A.block_size();
	int mode = (int)rng.below(3);
	if (mode == 0) B.parity_limit = (int64_t)rng.range(2, 9) * bs + (int64_t)rng.range(1, bs - 1);   // not block aligned
	else if (mode == 1) {
		for (int l = 0; l < B.np; ++l) for (int s = 0; s + 1 < B.splits[(size_t)l]; ++s) B.budgets[B.parity_top(l, s)] = (int64_t)rng.range(2, 10) * bs + (int64_t)rng.range(0, bs - 1);
		B.skip_fallocate = rng.chance(1, 2);
	}
	// both sets of directories exist in the one sandbox
	for (int l = 0; l < B.np; ++l) for (int s = 0; s < 8; ++s) { A.extra_tops.push_back(B.parity_top(l, s)); }
	for (auto& c : B.content) A.extra_tops.push_back(c.substr(0, c.find('/')));
	for (int l = 0; l < A.np; ++l) B.extra_tops.push_back(A.parity_top(l, 0));
	for (auto& c : A.content) B.extra_tops.push_back(c.substr(0, c.find('/')));
	A.budgets = B.budgets; // devices are registered once for both
	p.cfg = A;
	p.ops.push_back(Json::obj().set("k", "c17_setup").set("cfgB", B.to_json()));
	for (auto& o : gen_populate(rng, A, 1, 4)) p.ops.push_back(o);
	int rounds = (int)rng.range(2, tier ? 7 : 5);
	for (int r = 0; r < rounds; ++r) {
		p.ops.push_back(Json::obj().set("k", "c17_round").set("seed", rng.next() >> 1));
		if (rng.chance(1, 3)) p.ops.push_back(Json::obj().set("k", "c17_fix").set("seed", rng.next() >> 1));
		if (rng.chance(1, 3)) p.ops.push_back(Json::obj().set("k", "c17_trim").set("seed", rng.next() >> 1));
		if (rng.chance(1, 4)) {
			// C06/C07 on the split twin: every crash point of a sync that grows or shrinks across split boundaries
			p.ops.push_back(Json::obj().set("k", "c17_use").set("b", 1));
			bool additions_only = rng.chance(1, 2);
			if (additions_only) for (int i = 0; i < (int)rng.range(1, 3); ++i) { Json c = op_create(rng, A, -1, true); c.set("name", strf("n%d_%d_", r, i) + c.str("name")); p.ops.push_back(c); }
			else for (auto& o : gen_mutations(rng, A, (int)rng.range(2, 5))) p.ops.push_back(o);
			CmdSpec s;
			s.cmd = "sync";
			if (!additions_only) s.opts = { "-E", "-Z" };
			s = gen_sched(rng, s);
			p.ops.push_back(Json::obj().set("k", "crash_sync").set("spec", s.to_json()).set("additions_only", additions_only ? 1 : 0).set("stride", tier ? 3 : (int)rng.range(7, 13)).set("phase", (int)rng.below(13)));
			p.ops.push_back(Json::obj().set("k", "c17_use").set("b", 0));
		}
		// grow or shrink across split boundaries
		if (rng.chance(1, 2)) { for (int i = 0; i < (int)rng.range(1, 4); ++i) p.ops.push_back(op_create(rng, A, -1, true)); }
		else { for (int i = 0; i < (int)rng.range(1, 4); ++i) p.ops.push_back(Json::obj().set("k", "delete").set("d", (int64_t)rng.below(A.disks.size())).set("f", (int64_t)rng.below(32))); }
		if (rng.chance(1, 3)) for (auto& o : gen_mutations(rng, A, 2)) p.ops.push_back(o);
	}
	p.ops.push_back(Json::obj().set("k", "c17_round").set("seed", rng.next() >> 1));
	return p;
}

static void op_c17_setup(Exec& x, const Json& op, int)
{
	x.vars["cfgB"] = op.at("cfgB");
}

// run the following generic ops (crash sweeps of other families) against the split twin
static void op_c17_use(Exec& x, const Json& op, int)
{
	if (!has_b(x)) return;
	if (op.num("b") != 0) {
		if (x.vars.count("cfgA")) return;
		x.vars["cfgA"] = x.sb.cfg.to_json();
		x.sb.cfg = cfg_b_of(x);
	} else {
		if (!x.vars.count("cfgA")) return;
		x.sb.cfg = Config::from_json(x.vars.at("cfgA"));
		x.vars.erase("cfgA");
	}
	x.sb.write_conf();
}

static struct RegSplit {
	RegSplit()
	{
		Exec::register_op("c17_setup", op_c17_setup);
		Exec::register_op("c17_round", op_c17_round);
		Exec::register_op("c17_fix", op_c17_fix);
		Exec::register_op("c17_trim", op_c17_trim);
		Exec::register_op("c17_use", op_c17_use);
		Family f;
		f.name = "split";
		f.prop = "C17";
		f.level = "exploration";
		f.gen = gen_split;
		register_family(f);
	}
} reg_split;
