// family golden (C16): arrays written by the reference version (the pinned commit, built into this same simulator by
// tools/mkgolden.sh) are stored under /verif/golden and handed to the current code: they must load, verify, survive the loss
// of up to np devices, and keep their recorded hashes/positions when the current code saves them again.
//
// Corpus entry = configuration + snapshot of the whole sandbox after a history of reference-version syncs. Data files are
// stored as (seed, size) of the generator, content and parity files as base64 of the reference version's output.
#include <dirent.h>
#include <sys/stat.h>
#include "run.hpp"

std::vector<std::string> compare_with_synced(Exec& x, const Snap& want, bool allow_mtime_collision_rule);

namespace {

const char* B64 = "ABCDEFGHIJKLMNOPQRSTUVWXYZabcdefghijklmnopqrstuvwxyz0123456789+/";

std::string b64enc(const Bytes& in)
{
	std::string out;
	size_t i = 0;
	for (; i + 2 < in.size(); i += 3) {
		unsigned v = ((unsigned char)in[i] << 16) | ((unsigned char)in[i + 1] << 8) | (unsigned char)in[i + 2];
		out += B64[v >> 18]; out += B64[(v >> 12) & 63]; out += B64[(v >> 6) & 63]; out += B64[v & 63];
	}
	if (i + 1 == in.size()) {
		unsigned v = (unsigned char)in[i] << 16;
		out += B64[v >> 18]; out += B64[(v >> 12) & 63]; out += "==";
	} else if (i + 2 == in.size()) {
		unsigned v = ((unsigned char)in[i] << 16) | ((unsigned char)in[i + 1] << 8);
		out += B64[v >> 18]; out += B64[(v >> 12) & 63]; out += B64[(v >> 6) & 63]; out += '=';
	}
	return out;
}

Bytes b64dec(const std::string& in)
{
	static int tab[256];
	static bool init = false;
	if (!init) { for (int i = 0; i < 256; ++i) tab[i] = -1; for (int i = 0; i < 64; ++i) tab[(unsigned char)B64[i]] = i; init = true; }
	Bytes out;
	unsigned acc = 0;
	int bits = 0;
	for (unsigned char c : in) {
		if (tab[c] < 0) continue;
		acc = (acc << 6) | (unsigned)tab[c];
		bits += 6;
		if (bits >= 8) { bits -= 8; out += (char)((acc >> bits) & 0xff); }
	}
	return out;
}

struct Entry {
	Config cfg;
	Snap snap;
	int64_t now_s = 0;
	uint64_t wcount = 0;
	unsigned cmd_index = 0;
	std::string desc, ref_commit;
};

Json entry_to_json(const Entry& e, const std::map<uint64_t, std::pair<uint64_t, uint64_t>>& gens)
{
	Json j = Json::obj();
	j.set("desc", e.desc).set("ref_commit", e.ref_commit).set("cfg", e.cfg.to_json()).set("now_s", e.now_s).set("wcount", e.wcount).set("cmd_index", e.cmd_index);
	Json nodes = Json::arr();
	for (auto& kv : e.snap) {
		const SnapNode& n = kv.second;
		Json o = Json::obj();
		o.set("p", kv.first).set("t", std::string(1, n.type)).set("s", n.mtime_s).set("ns", n.mtime_ns).set("ino", n.vino).set("mode", n.mode);
		if (n.type == 'f') {
			auto it = gens.find(hash_str(n.data));
			if (it != gens.end() && gen_bytes(it->second.first, (size_t)it->second.second) == n.data) o.set("seed", it->second.first).set("size", it->second.second);
			else o.set("b64", b64enc(n.data));
		} else if (n.type == 'l')
			o.set("to", n.data);
		nodes.push(o);
	}
	j.set("nodes", nodes);
	return j;
}

bool entry_from_json(const Json& j, Entry& e)
{
	if (j.type != Json::OBJ || !j.has("cfg") || !j.has("nodes")) return false;
	e.desc = j.str("desc");
	e.ref_commit = j.str("ref_commit");
	e.cfg = Config::from_json(j.at("cfg"));
	e.now_s = j.num("now_s");
	e.wcount = (uint64_t)j.num("wcount");
	e.cmd_index = (unsigned)j.num("cmd_index");
	for (auto& o : j.at("nodes").a) {
		SnapNode n;
		std::string t = o.str("t");
		n.type = t.empty() ? 'f' : t[0];
		n.mtime_s = o.num("s");
		n.mtime_ns = o.num("ns");
		n.vino = (uint64_t)o.num("ino");
		n.mode = (unsigned)o.num("mode");
		if (n.type == 'f') {
			if (o.has("b64")) n.data = b64dec(o.str("b64"));
			else n.data = gen_bytes((uint64_t)o.num("seed"), (size_t)o.num("size"));
		} else if (n.type == 'l')
			n.data = o.str("to");
		e.snap[o.str("p")] = n;
	}
	return true;
}

std::vector<std::string> corpus_files()
{
	std::vector<std::string> v;
	std::string dir = verif_dir() + "/golden";
	DIR* d = opendir(dir.c_str());
	if (!d) return v;
	while (dirent* de = readdir(d)) {
		std::string n = de->d_name;
		if (ends_with(n, ".json")) v.push_back(n);
	}
	closedir(d);
	std::sort(v.begin(), v.end());
	return v;
}

const Entry* corpus_entry(const std::string& name)
{
	static std::map<std::string, Entry> cache;
	auto it = cache.find(name);
	if (it != cache.end()) return &it->second;
	Bytes raw;
	if (!read_file(verif_dir() + "/golden/" + name, raw)) return nullptr;
	Json j;
	if (!Json::parse(raw, j)) return nullptr;
	Entry e;
	if (!entry_from_json(j, e)) return nullptr;
	return &(cache[name] = e);
}

// recorded (map name, sub) -> blocks of the content file
struct Rec { uint64_t size; int64_t s; int32_t ns; std::vector<CBlock> blocks; };
std::map<std::string, Rec> recorded_files(const Content& c)
{
	std::map<std::string, Rec> m;
	for (auto& f : c.files) m[c.maps[f.map_idx].name + "|" + f.sub] = Rec{ f.size, f.mtime_sec, f.mtime_nsec, f.blocks };
	return m;
}

} // namespace

static void op_golden_load(Exec& x, const Json& op, int)
{
	const Entry* e = corpus_entry(op.str("file"));
	if (!e) { x.harness("golden corpus entry " + op.str("file") + " cannot be read"); return; }
	x.vars["golden_file"] = Json(op.str("file"));
	x.sb.restore_all(e->snap);
	// inodes handed out from now on must not collide with the restored ones
	for (auto& kv : e->snap) if (kv.second.vino >= sim_sh->next_vino) sim_sh->next_vino = kv.second.vino + 1;
	x.sb.now_s = e->now_s + 3600;
	x.sb.wcount = e->wcount;
	x.sb.cmd_index = e->cmd_index;
	x.sb.observe_versions();
	x.mark_synced();
	// the stored files must be what the independent decoder and parity oracle understand: otherwise the corpus (or the
	// model) is broken, which is not a property of the code under test
	std::vector<LoadedContent> cs = load_contents(x.sb);
	const LoadedContent* lc = first_good(cs);
	if (!lc) { x.harness("golden " + op.str("file") + ": stored content file does not decode with the reference decoder"); return; }
	x.vars["golden_content"] = Json(hex(lc->raw.data(), lc->raw.size()));
	x.vars["remap_C01"] = Json("C16");
	x.probe("golden.loaded");
	x.probe(std::string("golden.hash_") + lc->c.hash_kind);
	x.probe(strf("golden.levels_%d%s", e->cfg.np, e->cfg.zmode ? "z" : ""));
	x.probe(strf("golden.hashsize_%u", lc->c.hash_size));
	bool split = false;
	for (auto s : e->cfg.splits) if (s > 1) split = true;
	if (split) x.probe("golden.split_layout");
}

// the current code verifies the reference array: everything must be clean
static void op_golden_verify(Exec& x, const Json& op, int)
{
	CmdSpec s = CmdSpec::from_json(op.at("spec"));
	CmdResult r = x.cmd(s);
	++x.out.cases;
	std::string what = "reference array " + x.vars["golden_file"].s + ": " + s.cmd;
	for (auto& o : s.opts) what += " " + o;
	if (r.exit_code == SIM_EXIT_DEADLOCK || r.exit_code == SIM_EXIT_STEPS || r.harness_error) return; // reported by the always-on monitors
	if (r.exit_code != 0) { x.violation("C16", "reference-array-not-clean", what + strf(": exit %d: ", r.exit_code) + r.err.substr(0, 300)); return; }
	// no error of any kind in the log
	uint64_t bad = 0;
	std::string first;
	for (auto& line : split(r.log, '\n')) {
		if (starts_with(line, "error:") || starts_with(line, "parity_error:") || starts_with(line, "unrecoverable:") || starts_with(line, "hash_error:") || starts_with(line, "outofparity:")) {
			if (!bad) first = line;
			++bad;
		}
	}
	if (bad) x.violation("C16", "reference-array-reports-errors", what + strf(": %llu error lines, first: ", (unsigned long long)bad) + first.substr(0, 200));
	++x.out.nontrivial_cases;
	x.out.nontrivial = true;
	x.out.case_hashes.insert(mix64(hash_str(x.vars["golden_file"].s), hash_str(what)));
}

// after the current code saved the array again (scrub, sync after changes): untouched files keep hash, size, stamp and position
static void op_golden_resave(Exec& x, const Json& op, int)
{
	std::vector<LoadedContent> cs0 = load_contents(x.sb);
	const LoadedContent* l0 = first_good(cs0);
	if (!l0) { x.harness("golden_resave: no content"); return; }
	Content before = l0->c;
	Snap data_before = x.sb.snapshot(x.sb.data_tops());
	CmdSpec s = CmdSpec::from_json(op.at("spec"));
	CmdResult r = x.cmd(s);
	++x.out.cases;
	std::string what = "reference array " + x.vars["golden_file"].s + ": " + s.cmd;
	for (auto& o : s.opts) what += " " + o;
	if (r.exit_code == SIM_EXIT_DEADLOCK || r.exit_code == SIM_EXIT_STEPS || r.harness_error) return;
	if (r.exit_code != 0 && r.err.find("nsufficient parity space") != std::string::npos && x.sb.cfg.parity_limit) {
		// a reference array with size-limited parity splits has no room for the new files: the documented refusal; the
		// user adds space (here: the limit goes) and runs the command again
		x.probe("golden.parity_limit_lifted");
		x.sb.cfg.parity_limit = 0;
		x.sb.write_conf();
		r = x.cmd(s);
	}
	if (r.exit_code != 0) { x.violation("C16", "reference-array-command-failed", what + strf(": exit %d: ", r.exit_code) + r.err.substr(0, 300)); return; }
	std::vector<LoadedContent> cs1 = load_contents(x.sb);
	const LoadedContent* l1 = first_good(cs1);
	if (!l1) { x.violation("C16", "resaved-content-unreadable", what + ": the saved content file does not decode"); return; }
	const Content& after = l1->c;
	if (after.hash_kind != before.hash_kind || after.hash_seed != before.hash_seed || after.hash_size != before.hash_size || after.block_size != before.block_size)
		x.violation("C16", "resaved-header-changed", what + ": hash kind/seed/size or block size changed");
	auto rb = recorded_files(before), ra = recorded_files(after);
	uint64_t kept = 0;
	for (auto& kv : rb) {
		auto it = ra.find(kv.first);
		if (it == ra.end()) continue; // deleted by the workload
		const Rec& a = it->second;
		const Rec& b = kv.second;
		if (a.size != b.size || a.s != b.s || a.ns != b.ns) continue; // changed by the workload
		// the file on disk is the one recorded by the reference version?
		++kept;
		if (a.blocks.size() != b.blocks.size()) { x.violation("C16", "resaved-file-differs", what + ": " + kv.first + " block count changed"); continue; }
		for (size_t i = 0; i < a.blocks.size(); ++i) {
			if (b.blocks[i].state != BS_BLK || a.blocks[i].state != BS_BLK) continue;
			// a stripe still on the previous hash may be migrated by the command: its new hash is judged by the always-on
			// reference-hash oracle, the position must stay
			uint32_t pos = b.blocks[i].pos;
			bool migrating = pos < before.info.size() && before.info[pos].present && before.info[pos].rehash;
			if (migrating) x.probe("golden.blocks_on_previous_hash_compared");
			if (!migrating && a.blocks[i].hash != b.blocks[i].hash) { x.violation("C16", "resaved-hash-differs", what + ": " + kv.first + strf(" block %zu: hash recorded by the reference version %s, now %s", i, hex(b.blocks[i].hash.data(), b.blocks[i].hash.size()).c_str(), hex(a.blocks[i].hash.data(), a.blocks[i].hash.size()).c_str())); break; }
			if (a.blocks[i].pos != b.blocks[i].pos) { x.violation("C16", "resaved-position-differs", what + ": " + kv.first + strf(" block %zu moved from %u to %u", i, b.blocks[i].pos, a.blocks[i].pos)); break; }
		}
	}
	x.probe("golden.files_compared_after_resave", kept);
	if (kept) { ++x.out.nontrivial_cases; x.out.nontrivial = true; x.out.case_hashes.insert(mix64(hash_str(x.vars["golden_file"].s), hash_str(l1->raw))); }
	x.mark_synced();
}

static void op_golden_name(Exec& x, const Json& op, int)
{
	x.vars["golden_file"] = Json(op.str("file"));
}

static RunPlan gen_golden(uint64_t seed, int tier)
{
	Rng rng(seed);
	RunPlan p;
	p.family = "golden";
	p.seed = seed;
	std::vector<std::string> files = corpus_files();
	if (files.empty()) {
		p.cfg = gen_config(rng, 2, 1, false);
		p.ops.push_back(Json::obj().set("k", "golden_load").set("file", "(no corpus)"));
		return p;
	}
	std::string file = files[rng.below(files.size())];
	const Entry* e = corpus_entry(file);
	if (!e) {
		p.cfg = gen_config(rng, 2, 1, false);
		p.ops.push_back(Json::obj().set("k", "golden_load").set("file", file));
		return p;
	}
	p.cfg = e->cfg;
	p.ops.push_back(Json::obj().set("k", "golden_name").set("file", file));
	p.ops.push_back(Json::obj().set("k", "golden_load").set("file", file));
	auto sched = [&](CmdSpec s) {
		s = gen_sched(rng, s);
		if (rng.chance(1, 3)) s.short_read = (int)rng.range(16, 200);
		if (rng.chance(1, 4)) s.stream_size = (unsigned)rng.range(1, 4096);
		return s;
	};
	bool big = e->snap.size() > 600; // the hash vector arrays
	int scen = (int)rng.below(big ? 3 : 6);
	auto verify = [&](const char* cmd, std::vector<std::string> opts) {
		CmdSpec s;
		s.cmd = cmd;
		s.opts = opts;
		p.ops.push_back(Json::obj().set("k", "golden_verify").set("spec", sched(s).to_json()));
	};
	auto resave = [&](const char* cmd, std::vector<std::string> opts) {
		CmdSpec s;
		s.cmd = cmd;
		s.opts = opts;
		p.ops.push_back(Json::obj().set("k", "golden_resave").set("spec", sched(s).to_json()));
	};
	auto rebuild = [&]() {
		p.ops.push_back(Json::obj().set("k", "c01_damage").set("seed", rng.next() >> 1).set("mode", (int)rng.below(2)).set("tries", rng.range(4, 40)).set("lose_content", (int)rng.chance(1, 3)));
		CmdSpec fix;
		fix.cmd = "fix";
		CmdSpec fs = sched(fix);
		fs.short_read = 0; // fix's search for identical files (search.c) treats a short read of a regular file as fatal; not what C16 is about
		p.ops.push_back(Json::obj().set("k", "c01_verify").set("spec", fs.to_json()));
	};
	switch (scen) {
	case 0: verify("check", {}); break;
	case 1: verify("check", { "-a" }); resave("scrub", { "-p", "full" }); verify("check", {}); break;
	case 2: rebuild(); verify("check", {}); break;
	case 3:
		// the current code continues the array: changes, sync, then everything (old and new) verifies and rebuilds
		for (auto& o : gen_mutations(rng, p.cfg, (int)rng.range(2, 6))) p.ops.push_back(o);
		resave("sync", { "-E", "-Z" });
		verify("check", {});
		rebuild();
		break;
	case 4: resave("scrub", { "-p", "full" }); rebuild(); break;
	default:
		for (int i = 0; i < (int)rng.range(1, 4); ++i) p.ops.push_back(op_create(rng, p.cfg, -1, true));
		resave("sync", {});
		rebuild();
		verify("check", {});
		break;
	}
	(void)tier;
	return p;
}

// ------------------------------------------------------------------ corpus generation (run with a build of the reference commit)

static bool make_one(const std::string& outdir, int idx, const std::string& ref_commit, const std::string& shm, int salt)
{
	Rng rng(mix64(0x601d + (uint64_t)salt * 7919, (uint64_t)idx));
	RunPlan p;
	p.family = "golden";
	p.seed = (uint64_t)idx;
	std::string desc;
	bool vectors = idx >= 1000;
	std::map<uint64_t, std::pair<uint64_t, uint64_t>> gens;
	auto add_create = [&](int d, const std::string& name, uint64_t size) {
		uint64_t sd = rng.next() >> 1;
		p.ops.push_back(Json::obj().set("k", "create").set("d", d).set("name", name).set("size", size).set("seed", sd));
		gens[hash_str(gen_bytes(sd, (size_t)size))] = { sd, size };
	};
	auto add_sync = [&](std::vector<std::string> opts) {
		CmdSpec s;
		s.cmd = "sync";
		s.opts = opts;
		s.sched_seed = rng.next() >> 1;
		p.ops.push_back(op_cmd(s, "ok"));
	};
	if (vectors) {
		Config c = gen_config(rng, 2, 1, false);
		c.disks.clear();
		for (int d = 0; d < 8; ++d) c.disks.push_back(DiskCfg{ strf("d%d", d + 1), strf("d%d", d + 1), strf("uuid-golden-%d", d + 1), true });
		c.np = 1;
		c.zmode = false;
		c.splits.assign(1, 1);
		c.block_kib = 2;
		c.hash_size = 16;
		c.hash = idx == 1000 ? 'u' : 'k';
		c.content = { "d1/content", "d2/content" };
		c.filters.clear();
		c.pool = false;
		c.nohidden = false;
		c.autosave_at = 0;
		c.parity_limit = 0;
		p.cfg = c;
		for (int len = 0; len <= 1100; ++len) add_create(len % 8, strf("v/len%04d", len), (uint64_t)len);
		add_sync({});
		desc = strf("hash vectors: one file of every length 0..1100, hash %c, block 2 KiB", c.hash);
	} else {
		int hk = idx % 2;
		int lm = (idx / 2) % 7;   // 0..5: np = lm+1; 6: z mode
		int variant = (idx / 14); // 0 plain, 1 split with limit, 2 reduced hash size, ...
		Config c = gen_config(rng, 5, 6, false);
		c.hash = hk ? 'k' : 'u';
		c.zmode = lm == 6;
		c.np = lm == 6 ? 3 : lm + 1;
		c.splits.assign((size_t)c.np, 1);
		c.hash_size = 16;
		c.block_kib = variant == 4 ? 4 : 1;
		c.parity_limit = 0;
		c.autosave_at = 0;
		c.filters.clear();
		if (variant == 1) {
			for (auto& s : c.splits) s = (int)rng.range(3, 4);
			c.parity_limit = (int64_t)rng.range(8, 14) * c.block_size() + (int64_t)rng.range(1, c.block_size() - 1);
		}
		c.content.clear();
		for (int k = 0; k < c.np + 1; ++k) {
			if (k < (int)c.disks.size() && rng.chance(1, 2)) c.content.push_back(strf("d%d/content", k + 1));
			else c.content.push_back(strf("c%d/content", k));
		}
		if (variant == 2) c.hash_size = (idx / 2) % 3 == 0 ? 8 : (idx / 2) % 3 == 1 ? 4 : 2;
		p.cfg = c;
		unsigned bs = c.block_size();
		unsigned nd = (unsigned)c.disks.size();
		std::vector<std::pair<int, std::string>> live;
		int counter = 0;
		auto new_file = [&](int d) {
			std::string name = rng.chance(1, 3) ? strf("dir %d/f%d", (int)rng.below(3), counter++) : strf("f%d.bin", counter++);
			if (rng.chance(1, 6)) name = gen_name(rng, true) + strf("_%d", counter++);
			uint64_t size = rng.chance(1, 8) ? 0 : rng.chance(1, 3) ? rng.range(1, 6) * bs : rng.range(1, 6 * bs);
			add_create(d, name, size);
			live.push_back({ d, name });
		};
		for (unsigned d = 0; d < nd; ++d) for (int i = 0; i < (int)rng.range(2, 4); ++i) new_file((int)d);
		p.ops.push_back(Json::obj().set("k", "symlink").set("d", 0).set("name", "a link").set("target", "f0.bin"));
		p.ops.push_back(Json::obj().set("k", "mkdir").set("d", (int64_t)(nd - 1)).set("name", "empty dir/sub"));
		if (!live.empty()) p.ops.push_back(Json::obj().set("k", "hardlink").set("d", live[0].first).set("sub", live[0].second).set("name", "hard link"));
		add_sync({});
		int rounds = (int)rng.range(1, 2);
		for (int r = 0; r < rounds; ++r) {
			// deletions leave holes, replacements move blocks, additions fill holes: the recorded layout is not the trivial one
			for (int i = 0; i < (int)rng.range(1, 3) && live.size() > 2; ++i) {
				size_t k = rng.below(live.size());
				p.ops.push_back(Json::obj().set("k", "delete").set("d", live[k].first).set("sub", live[k].second));
				live.erase(live.begin() + (long)k);
			}
			for (int i = 0; i < (int)rng.range(0, 2) && !live.empty(); ++i) {
				size_t k = rng.below(live.size());
				add_create(live[k].first, live[k].second, rng.range(1, 5 * bs));
			}
			for (int i = 0; i < (int)rng.range(1, 3); ++i) new_file((int)rng.below(nd));
			p.ops.push_back(Json::obj().set("k", "clock").set("adv", (int64_t)rng.range(100, 100000)));
			add_sync({ "-E", "-Z" });
		}
		if (variant == 3) {
			// a hash migration in progress: the array is switched to the other hash kind, a new file is synced with the new
			// hash and a partial scrub migrates some of the old stripes; the rest still carries the previous hash and seed
			p.ops.push_back(Json::obj().set("k", "rehash").set("seed", rng.next() >> 1));
			new_file((int)rng.below(nd));
			add_sync({});
			CmdSpec s;
			s.cmd = "scrub";
			s.opts = { "-p", strf("%d", (int)rng.range(20, 60)), "-o", "0" };
			s.sched_seed = rng.next() >> 1;
			p.ops.push_back(Json::obj().set("k", "clock").set("adv", (int64_t)86400 * 3));
			p.ops.push_back(op_cmd(s, "ok"));
		} else if (rng.chance(1, 2)) {
			// some arrays carry scrub information
			CmdSpec s;
			s.cmd = "scrub";
			s.opts = { "-p", "50", "-o", "0" };
			s.sched_seed = rng.next() >> 1;
			p.ops.push_back(Json::obj().set("k", "clock").set("adv", (int64_t)86400 * 20));
			p.ops.push_back(op_cmd(s, "ok"));
		}
		desc = strf("hash %c size %d, %d parity levels%s, %u disks, block %d KiB", c.hash, c.hash_size, c.np, c.zmode ? " (z mode)" : "", nd, c.block_kib);
		if (variant == 1) desc += strf(", split parity with limit %lld", (long long)c.parity_limit);
		if (variant == 3) desc += ", hash migration in progress (written with this kind, being migrated to the other)";
	}
	std::string root = shm + strf("/mk%d_%d", idx, salt);
	Exec x(root, p);
	x.run_all();
	if (x.out.harness_error) { fprintf(stderr, "mkgolden %d: harness: %s\n", idx, x.out.harness_msg.c_str()); return false; }
	for (auto& v : x.out.viol) {
		// the reference version flushes parity before its writers have drained (fixed since, 0d8013a): without a crash the
		// bytes that reach the files are the same
		if (v.cls == "fsync-order") continue;
		// the known defects of the reference version concern windows no corpus history goes through; anything reported here
		// means the stored array would not be a clean one
		fprintf(stderr, "mkgolden %d: the reference run raised %s/%s: %s\n", idx, v.prop.c_str(), v.cls.c_str(), v.msg.substr(0, 300).c_str());
		return false;
	}
	CmdResult ck = x.simple("check");
	if (ck.exit_code != 0) { fprintf(stderr, "mkgolden %d: check of the reference version on its own array exits %d\n", idx, ck.exit_code); return false; }
	Entry e;
	e.cfg = x.sb.cfg; // the hash kind forced on the command line follows a migration
	e.snap = x.sb.snapshot_all();
	e.now_s = x.sb.now_s;
	e.wcount = x.sb.wcount;
	e.cmd_index = x.sb.cmd_index;
	e.desc = desc;
	e.ref_commit = ref_commit;
	std::string out;
	entry_to_json(e, gens).dump(out, 0);
	out += "\n";
	if (!vectors && idx / 14 == 3) {
		// really in progress?
		std::vector<LoadedContent> cs = load_contents(x.sb);
		const LoadedContent* lc = first_good(cs);
		unsigned old_ = 0, new_ = 0;
		if (lc) for (auto& i : lc->c.info) if (i.present) (i.rehash ? old_ : new_)++;
		if (!lc || !lc->c.prev_hash_kind || !old_ || !new_) { fprintf(stderr, "mkgolden %d: migration not in progress (%u old, %u new)\n", idx, old_, new_); return false; }
		desc += strf(" [%u stripes on the previous hash, %u migrated]", old_, new_);
		e.desc = desc;
	}
	std::string name = vectors ? strf("vec-%c.json", p.cfg.hash) : strf("arr-%03d.json", idx);
	if (!write_file(outdir + "/" + name, out)) return false;
	printf("%s: %s (%zu nodes, %zu bytes)\n", name.c_str(), desc.c_str(), e.snap.size(), out.size());
	return true;
}

int golden_make(const std::string& outdir, int count, const std::string& ref_commit, const std::string& shm)
{
	mkdir(outdir.c_str(), 0755);
	std::vector<int> ids;
	for (int i = 0; i < count; ++i) ids.push_back(i);
	ids.push_back(1000);
	ids.push_back(1001);
	for (int i : ids) {
		bool ok = false;
		for (int salt = 0; salt < 6 && !ok; ++salt) ok = make_one(outdir, i, ref_commit, shm, salt);
		if (!ok) return 2;
	}
	return 0;
}

static struct RegGolden {
	RegGolden()
	{
		Exec::register_op("golden_load", op_golden_load);
		Exec::register_op("golden_name", op_golden_name);
		Exec::register_op("golden_verify", op_golden_verify);
		Exec::register_op("golden_resave", op_golden_resave);
		Family f;
		f.name = "golden";
		f.prop = "C16";
		f.level = "exploration";
		f.gen = gen_golden;
		register_family(f);
	}
} reg_golden;
