// family parity-inv (C06): random interleavings of file-system changes with every state-changing
// command; the parity-ok oracle runs after every single command (always-on monitor in Exec).
#include "run.hpp"

CmdSpec gen_sync_variant(Rng& rng, const Config& cfg)
{
	CmdSpec s;
	s.cmd = "sync";
	switch (rng.below(12)) {
	case 0: s.opts = { "-B", strf("%d", (int)rng.range(1, 6)) }; break;
	case 1: s.opts = { "-S", strf("%d", (int)rng.range(0, 5)), "-B", strf("%d", (int)rng.range(1, 8)) }; break;
	case 2: s.opts = { "-F" }; break;
	case 3: s.opts = { "-R" }; break;
	case 4: s.opts = { "-h" }; break;
	case 5: s.opts = { "--test-kill-after-sync" }; break;
	case 6: s.opts = { "-N" }; break;
	default: break;
	}
	// io cache depth knob
	static const int depths[] = { 1, 3, 4, 5, 8, 17, 128 };
	if (rng.chance(2, 3)) { s.opts.push_back("--test-io-cache"); s.opts.push_back(strf("%d", depths[rng.below(7)])); }
	if (rng.chance(1, 4)) s.opts.push_back("--test-cond-signal-outside");
	if (rng.chance(1, 3)) s.opts.push_back("--test-skip-multi-scan");
	(void)cfg;
	return gen_sched(rng, s);
}

static RunPlan gen_parityinv(uint64_t seed, int tier)
{
	Rng rng(seed);
	RunPlan p;
	p.family = "parity-inv";
	p.seed = seed;
	p.cfg = gen_config(rng, 5, 6, true);
	if (rng.chance(1, 4)) p.cfg.autosave_at = (int)rng.range(1, 6);
	for (auto& o : gen_populate(rng, p.cfg, 1, 5)) p.ops.push_back(o);
	int rounds = (int)rng.range(2, tier ? 7 : 5);
	for (int r = 0; r < rounds; ++r) {
		if (r > 0)
			for (auto& o : gen_mutations(rng, p.cfg, (int)rng.range(1, 6))) p.ops.push_back(o);
		if (rng.chance(1, 3))
			for (auto& o : gen_idiom(rng, p.cfg, r)) p.ops.push_back(o);
		if (p.cfg.disks.size() >= 2 && rng.chance(1, 6)) {
			// a silent error met by sync itself, in stripes where another disk has just lost a file (or got a changed one): sync
			// repairs the block in memory from the old parity and must still write the parity of the new recorded state
			unsigned bs = p.cfg.block_size();
			int64_t d = (int64_t)rng.below(p.cfg.disks.size());
			int64_t d2 = (d + 1 + (int64_t)rng.below(p.cfg.disks.size() - 1)) % (int64_t)p.cfg.disks.size();
			std::string a = strf("sil%d/kept", r), b = strf("sil%d/gone", r);
			p.ops.push_back(Json::obj().set("k", "create").set("d", d).set("name", a).set("size", rng.range(2, 5) * bs - (rng.chance(1, 3) ? rng.range(1, bs - 1) : 0)).set("seed", rng.next() >> 1));
			p.ops.push_back(Json::obj().set("k", "create").set("d", d2).set("name", b).set("size", rng.range(2, 5) * bs - (rng.chance(1, 3) ? rng.range(1, bs - 1) : 0)).set("seed", rng.next() >> 1));
			CmdSpec full;
			full.cmd = "sync";
			full.opts = { "-E", "-Z" };
			p.ops.push_back(op_cmd(gen_sched(rng, full)));
			p.ops.push_back(Json::obj().set("k", "silent").set("d", d).set("sub", a).set("at", rng.next() >> 8));
			switch (rng.below(3)) {
			case 0: p.ops.push_back(Json::obj().set("k", "delete").set("d", d2).set("sub", b)); break;
			case 1: p.ops.push_back(Json::obj().set("k", "overwrite").set("d", d2).set("sub", b).set("size", rng.range(1, 5) * bs).set("seed", rng.next() >> 1).set("new_inode", (int)rng.below(2))); break;
			default: p.ops.push_back(Json::obj().set("k", "touch").set("d", d2).set("sub", b)); break;
			}
			p.ops.push_back(op_cmd(gen_sched(rng, full)));
			if (rng.chance(1, 2)) { CmdSpec fx; fx.cmd = "fix"; fx.opts = { "-e" }; p.ops.push_back(op_cmd(gen_sched(rng, fx))); }
		}
		if (rng.chance(1, 3)) p.ops.push_back(Json::obj().set("k", "clock").set("adv", rng.range(1, 40) * 86400));
		CmdSpec s;
		switch (rng.below(10)) {
		case 0: case 1: case 2: case 3: case 4:
			s = gen_sync_variant(rng, p.cfg);
			break;
		case 5:
			s.cmd = "scrub";
			s.opts = { "-p", rng.chance(1, 2) ? "full" : strf("%d", (int)rng.range(1, 100)), "-o", "0" };
			s = gen_sched(rng, s);
			break;
		case 6:
			s.cmd = "fix";
			if (rng.chance(1, 3)) s.opts = { "-d", Config::level_name((int)rng.below(p.cfg.np), false) };
			else if (rng.chance(1, 3)) s.opts = { "-m" };
			else if (rng.chance(1, 3)) s.opts = { "-e" };
			s = gen_sched(rng, s);
			break;
		case 7:
			s.cmd = "touch";
			s = gen_sched(rng, s);
			break;
		case 8:
			s.cmd = rng.chance(1, 2) ? "check" : "diff";
			if (s.cmd == "check" && rng.chance(1, 2)) s.opts = { "-a" };
			s = gen_sched(rng, s);
			break;
		default:
			s.cmd = "rehash";
			s.no_hash_opt = false;
			s = gen_sched(rng, s);
			break;
		}
		p.ops.push_back(op_cmd(s));
	}
	// always end with a completing sync so that every run exercises a fully synced array too
	CmdSpec fin;
	fin.cmd = "sync";
	fin = gen_sched(rng, fin);
	p.ops.push_back(op_cmd(fin));
	p.ops.push_back(Json::obj().set("k", "note_c06"));
	return p;
}

static void op_note_c06(Exec& x, const Json&, int)
{
	x.out.nontrivial = x.out.probes["parity_ok.stripes_checked"] > 0 && x.out.commands >= 3;
	if (x.out.sample.type == Json::NUL) {
		Json s = Json::obj();
		s.set("family", "parity-inv").set("seed", x.plan->seed).set("disks", (uint64_t)x.sb.cfg.disks.size()).set("parities", x.sb.cfg.np);
		Json cmds = Json::arr();
		for (auto& op : x.plan->ops)
			if (op.str("k") == "cmd") {
				std::string c = op.at("spec").str("cmd");
				for (auto& o : op.at("spec").at("opts").a) c += " " + o.s;
				cmds.push(c);
			} else if (cmds.a.size() < 40)
				cmds.push(op.str("k"));
		s.set("ops", cmds).set("stripes_checked", x.out.probes["parity_ok.stripes_checked"]);
		x.out.sample = s;
	}
}

static struct RegParityInv {
	RegParityInv()
	{
		Exec::register_op("note_c06", op_note_c06);
		Family f;
		f.name = "parity-inv";
		f.prop = "C06";
		f.level = "exploration";
		f.gen = gen_parityinv;
		f.quick_runs = 300;
		f.thorough_runs = 10000;
		register_family(f);
	}
} reg;
