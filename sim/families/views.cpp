// family views (C20): list / dup / status / pool reflect the recorded state faithfully; names made of arbitrary bytes survive.
#include <fcntl.h>
#include <unistd.h>
#include <dirent.h>
#include <sys/stat.h>
#include "run.hpp"

namespace {

void walk_pool(const std::string& abs, const std::string& rel, std::map<std::string, std::pair<char, std::string>>& out)
{
	DIR* d = opendir(abs.c_str());
	if (!d) return;
	std::vector<std::string> names;
	while (struct dirent* e = readdir(d)) { if (!strcmp(e->d_name, ".") || !strcmp(e->d_name, "..")) continue; names.push_back(e->d_name); }
	closedir(d);
	for (auto& n : names) {
		std::string a = abs + "/" + n, r = rel.empty() ? n : rel + "/" + n;
		struct stat st;
		if (lstat(a.c_str(), &st) != 0) continue;
		if (S_ISDIR(st.st_mode)) { out[r] = { 'd', "" }; walk_pool(a, r, out); }
		else if (S_ISLNK(st.st_mode)) { char buf[4096]; ssize_t k = readlink(a.c_str(), buf, sizeof(buf)); out[r] = { 'l', std::string(buf, k > 0 ? (size_t)k : 0) }; }
		else out[r] = { 'f', "" };
	}
}

} // namespace

static void op_c20_views(Exec& x, const Json& op, int)
{
	std::vector<LoadedContent> cs = load_contents(x.sb);
	const LoadedContent* lc = first_good(cs);
	if (!lc) { x.probe("c20.no_content"); return; }
	const Content& c = lc->c;
	bool saved = x.check_parity_every_cmd;
	x.check_parity_every_cmd = false;
	++x.out.cases;
	x.out.nontrivial = true;
	++x.out.nontrivial_cases;
	x.out.case_hashes.insert(hash_str(lc->raw));
	bool odd = false;
	for (auto& f : c.files) for (unsigned char ch : f.sub) if (ch == ':' || ch == '\n' || ch == '\r' || ch == '\\' || ch >= 0x80 || ch == ' ' || ch == '\t') odd = true;
	if (odd) x.probe("c20.states_with_odd_names");

	// ---- list: exactly the recorded files and links, names intact
	{
		CmdSpec l;
		l.cmd = "list";
		CmdResult r = x.cmd(l);
		std::multiset<std::string> got, want;
		for (auto& t : parse_tags(r.log)) {
			if (t.f.size() >= 7 && t.f[0] == "file") got.insert("f|" + t.f[1] + "|" + t.f[2] + "|" + t.f[3] + "|" + t.f[4] + "|" + t.f[5]);
			else if (t.f.size() >= 4 && starts_with(t.f[0], "link_")) got.insert(t.f[0] + "|" + t.f[1] + "|" + t.f[2] + "|" + t.f[3]);
			else if (t.f[0] == "file" || starts_with(t.f[0], "link_")) x.violation("C20", "list-malformed-tag", "list: tag with too few fields (a name broke the format?): " + t.raw.substr(0, 200));
		}
		for (auto& f : c.files) want.insert("f|" + c.maps[f.map_idx].name + "|" + f.sub + "|" + strf("%llu|%lld|%d", (unsigned long long)f.size, (long long)f.mtime_sec, f.mtime_nsec));
		for (auto& l2 : c.links) want.insert(std::string(l2.hard ? "link_hardlink" : "link_symlink") + "|" + c.maps[l2.map_idx].name + "|" + l2.sub + "|" + l2.to);
		if (r.exit_code != 0) x.violation("C20", "list-failed", strf("list exit %d", r.exit_code));
		else if (got != want) {
			std::string d;
			for (auto& g : got) if (!want.count(g)) { d = "list prints '" + g + "'"; break; }
			if (d.empty()) for (auto& w : want) if (!got.count(w)) { d = "list omits '" + w + "'"; break; }
			if (d.empty()) d = "multiplicity differs";
			x.violation("C20", "list-differs-from-recorded-state", d);
		}
		int64_t fc = summary_value(parse_tags(r.log), "file_count");
		if (r.exit_code == 0 && fc != (int64_t)c.files.size()) x.violation("C20", "list-count", strf("summary:file_count %lld, recorded %zu", (long long)fc, c.files.size()));
	}

	// ---- status: counters and per-stripe dump
	{
		CmdSpec st;
		st.cmd = "status";
		st.opts = { "-G" };
		CmdResult r = x.cmd(st);
		std::vector<Tag> tags = parse_tags(r.log);
		StripeMap sm = build_stripes(c);
		unsigned unsynced = 0, unscrubbed = 0, rehash = 0, bad = 0, bad_first = 0, bad_last = 0;
		for (uint32_t p = 0; p < c.blockmax; ++p) {
			bool v = false, iv = false;
			for (auto& b : sm.at[p]) { if (b.file_idx >= 0) v = true; if (b.file_idx < 0 || b.state != BS_BLK) iv = true; }
			if (v && iv) ++unsynced;
			if (c.info[p].present) {
				if (c.info[p].justsynced) ++unscrubbed;
				if (c.info[p].rehash) ++rehash;
				if (c.info[p].bad) { if (!bad) bad_first = p; bad_last = p; ++bad; }
			}
		}
		if (r.exit_code != 0) x.violation("C20", "status-failed", strf("status exit %d", r.exit_code));
		else {
			auto sv = [&](const char* k) { return summary_value(tags, k); };
			if (sv("has_unsynced") != (int64_t)unsynced) x.violation("C20", "status-unsynced-count", strf("summary:has_unsynced %lld, recorded state has %u", (long long)sv("has_unsynced"), unsynced));
			if (sv("has_unscrubbed") != (int64_t)unscrubbed) x.violation("C20", "status-unscrubbed-count", strf("summary:has_unscrubbed %lld, recorded state has %u", (long long)sv("has_unscrubbed"), unscrubbed));
			if (sv("has_rehash") != (int64_t)rehash) x.violation("C20", "status-rehash-count", strf("summary:has_rehash %lld, recorded %u", (long long)sv("has_rehash"), rehash));
			for (auto& t : tags) if (t.f.size() >= 5 && t.f[0] == "summary" && t.f[1] == "has_bad") {
				if (strtoul(t.f[2].c_str(), 0, 10) != bad || (bad && (strtoul(t.f[3].c_str(), 0, 10) != bad_first || strtoul(t.f[4].c_str(), 0, 10) != bad_last)))
					x.violation("C20", "status-bad-count", "summary:has_bad " + t.f[2] + ":" + t.f[3] + ":" + t.f[4] + strf(", recorded %u:%u:%u", bad, bad_first, bad_last));
			}
			if (sv("file_count") != (int64_t)c.files.size()) x.violation("C20", "status-file-count", strf("summary:file_count %lld, recorded %zu", (long long)sv("file_count"), c.files.size()));
			// files with a zero sub-second stamp are named: the names must come back intact
			std::multiset<std::string> zgot, zwant;
			for (auto& t : tags) if (t.f[0] == "zerosubsecond") { if (t.f.size() >= 4) zgot.insert(t.f[1] + "|" + t.f[2]); else x.violation("C20", "status-malformed-tag", "status: " + t.raw.substr(0, 200)); }
			std::map<std::string, int> per;
			for (auto& f : c.files) if (f.mtime_nsec <= 0) { if (++per[c.maps[f.map_idx].name] <= 50) zwant.insert(c.maps[f.map_idx].name + "|" + f.sub); }
			if (zgot != zwant) {
				std::string d;
				for (auto& g : zgot) if (!zwant.count(g)) { d = "status names '" + g + "'"; break; }
				if (d.empty()) for (auto& w : zwant) if (!zgot.count(w)) { d = "status omits '" + w + "'"; break; }
				x.violation("C20", "status-zerosubsecond-names", d);
			}
			if (!zwant.empty()) x.probe("c20.zero_subsecond_files");
		}
	}

	// ---- dup: exactly the content-equality partition of non-empty fully hashed files
	bool migration = c.prev_hash_kind != 0;
	for (auto& i : c.info) if (i.present && i.rehash) migration = true;
	if (c.hash_size == 16 && !migration) {
		CmdSpec d;
		d.cmd = "dup";
		CmdResult r = x.cmd(d);
		// expected groups by bytes
		std::map<std::string, std::vector<std::string>> groups; // content -> names
		bool all_known = true;
		for (auto& f : c.files) {
			if (f.size == 0) continue;
			bool hashed = true;
			for (auto& b : f.blocks) if (b.state == BS_CHG) hashed = false;
			if (!hashed) continue;
			// bytes of the recorded version, block by block (selected by recorded hash)
			Bytes whole;
			for (uint32_t bi = 0; bi < f.blocks.size(); ++bi) { Bytes blk; bool m = false; if (!recorded_block(x.sb, c, f, bi, blk, false, &m) || !m) all_known = false; whole += blk; }
			groups[whole].push_back(c.maps[f.map_idx].name + "|" + f.sub);
		}
		if (all_known && (r.exit_code == 0 || r.exit_code == 1)) {
			// union-find over reported pairs
			std::map<std::string, std::string> parent;
			std::function<std::string(const std::string&)> find = [&](const std::string& a) { auto it = parent.find(a); if (it == parent.end() || it->second == a) return a; return parent[a] = find(it->second); };
			for (auto& t : parse_tags(r.log)) {
				if (t.f[0] != "dup") continue;
				if (t.f.size() < 6) { x.violation("C20", "dup-malformed-tag", "dup: " + t.raw.substr(0, 200)); continue; }
				std::string a = t.f[1] + "|" + t.f[2], b = t.f[3] + "|" + t.f[4];
				if (!parent.count(a)) parent[a] = a;
				if (!parent.count(b)) parent[b] = b;
				parent[find(a)] = find(b);
			}
			std::map<std::string, std::string> exp_group;
			unsigned expected_dups = 0;
			for (auto& g : groups) { for (auto& n : g.second) exp_group[n] = g.second[0]; if (g.second.size() > 1) expected_dups += (unsigned)g.second.size() - 1; }
			// every reported pair is really equal; every equal pair is connected
			for (auto& kv : parent) {
				std::string root = find(kv.first);
				if (!exp_group.count(kv.first) || !exp_group.count(root) || exp_group[kv.first] != exp_group[root]) x.violation("C20", "dup-false-duplicate", "dup reports " + kv.first + " as a duplicate of " + root + " but their recorded contents differ");
			}
			for (auto& g : groups) if (g.second.size() > 1) {
				for (auto& n : g.second) if (find(n) != find(g.second[0]) || !parent.count(n)) { x.violation("C20", "dup-missed-duplicate", "dup does not connect " + n + " with " + g.second[0] + " although their recorded contents are identical"); break; }
			}
			int64_t dc = summary_value(parse_tags(r.log), "dup_count");
			if (dc != (int64_t)expected_dups) x.violation("C20", "dup-count", strf("summary:dup_count %lld, expected %u", (long long)dc, expected_dups));
			if (expected_dups) x.probe("c20.states_with_duplicates", expected_dups);
		}
	}

	// ---- pool
	if (x.sb.cfg.pool && op.num("pool")) {
		Rng r((uint64_t)op.num("seed"));
		// pre-existing pool contents: stale links, empty directories, foreign files
		std::string pd = x.sb.abs("pool");
		mkdir((pd + "/stale_dir").c_str(), 0755);
		mkdir((pd + "/stale_dir/deep").c_str(), 0755);
		if (symlink("/nonexistent/target", (pd + "/stale_dir/deep/old_link").c_str()) != 0) {}
		if (symlink("/nonexistent/other", (pd + "/stale top").c_str()) != 0) {}
		mkdir((pd + "/empty_dir").c_str(), 0755);
		write_file(pd + "/foreign.txt", "keep me");
		mkdir((pd + "/keepdir").c_str(), 0755);
		write_file(pd + "/keepdir/foreign2", "keep me too");
		CmdSpec p;
		p.cmd = "pool";
		CmdResult rp = x.cmd(p);
		if (rp.exit_code != 0) x.violation("C20", "pool-failed", strf("pool exit %d: ", rp.exit_code) + rp.err.substr(0, 200));
		else {
			std::map<std::string, std::pair<char, std::string>> tree;
			walk_pool(pd, "", tree);
			// expected links: first disk (configuration order) wins on duplicate paths
			std::map<std::string, std::string> want;
			for (auto& dk : x.sb.cfg.disks) {
				if (!dk.in_config) continue;
				for (auto& f : c.files) if (c.maps[f.map_idx].name == dk.name && !want.count(f.sub)) want[f.sub] = (x.sb.cfg.share.empty() ? x.sb.abs(dk.top) + "/" : x.sb.cfg.share + "/" + dk.name + "/") + f.sub;
				for (auto& l : c.links) if (c.maps[l.map_idx].name == dk.name && !want.count(l.sub)) want[l.sub] = (x.sb.cfg.share.empty() ? x.sb.abs(dk.top) + "/" : x.sb.cfg.share + "/" + dk.name + "/") + l.sub;
			}
			for (auto& w : want) {
				auto it = tree.find(w.first);
				if (it == tree.end()) x.violation("C20", "pool-link-missing", "no pool entry for recorded " + w.first);
				else if (it->second.first != 'l') { if (w.first != "foreign.txt" && !starts_with(w.first, "keepdir")) x.violation("C20", "pool-entry-not-a-link", w.first); }
				else if (it->second.second != w.second) x.violation("C20", "pool-link-wrong-target", w.first + " -> " + it->second.second + " instead of " + w.second);
			}
			for (auto& t : tree) {
				if (t.second.first == 'l' && !want.count(t.first)) x.violation("C20", "pool-stale-link-kept", t.first);
				if (t.second.first == 'd') {
					bool has_child = false;
					for (auto& o : tree) if (starts_with(o.first, t.first + "/")) has_child = true;
					if (!has_child) x.violation("C20", "pool-empty-dir-kept", t.first);
				}
			}
			if (!tree.count("foreign.txt") && !want.count("foreign.txt")) x.violation("C20", "pool-foreign-file-removed", "foreign.txt");
			if (!tree.count("keepdir/foreign2") && !want.count("keepdir/foreign2")) x.violation("C20", "pool-foreign-file-removed", "keepdir/foreign2");
			x.probe("c20.pool_runs");
		}
		// leave the pool as the tool made it (a second run must be a no-op for links)
		CmdResult rp2 = x.cmd(p);
		unsigned muts = 0;
		for (auto& e : rp2.trace) if ((e.flags & EVF_MUT) && e.res >= 0 && starts_with(rp2.path(e.path), "pool/")) ++muts;
		if (rp2.exit_code == 0 && muts) x.probe("c20.pool_second_run_rewrote", muts);
	}
	x.check_parity_every_cmd = saved;
	Json s = Json::obj();
	s.set("family", "views").set("seed", x.plan->seed).set("files", (uint64_t)c.files.size()).set("links", (uint64_t)c.links.size()).set("odd_names", odd).set("pool", x.sb.cfg.pool);
	if (!c.files.empty()) s.set("example_name", c.files[0].sub);
	x.out.sample = s;
}

static RunPlan gen_views(uint64_t seed, int tier)
{
	Rng rng(seed);
	RunPlan p;
	p.family = "views";
	p.seed = seed;
	p.cfg = gen_config(rng, 4, 3, true);
	p.cfg.hash_size = rng.chance(5, 6) ? 16 : 8;
	p.cfg.pool = rng.chance(2, 3);
	if (p.cfg.pool && rng.chance(1, 3)) p.cfg.share = "/share/base";
	p.cfg.autosave_at = 0;
	for (auto& o : gen_populate(rng, p.cfg, 1, 6, true)) { Json c = o; if (rng.chance(1, 6)) c.set("zns", 1); p.ops.push_back(c); }
	// duplicate groups of any size across disks: same bytes (same generator seed and size) under other names and stamps
	int groups = (int)rng.range(0, 3);
	for (int g = 0; g < groups; ++g) {
		uint64_t sd = rng.next() >> 1;
		uint64_t size = gen_size(rng, p.cfg.block_size());
		if (size == 0) size = 1;
		int members = (int)rng.range(2, 4);
		for (int m = 0; m < members; ++m)
			p.ops.push_back(Json::obj().set("k", "create").set("d", (int64_t)rng.below(p.cfg.disks.size())).set("name", strf("dup%d_%d_", g, m) + gen_name(rng, true)).set("size", size).set("seed", sd));
	}
	// the same path on several disks (pool: first disk wins)
	if (rng.chance(1, 2)) for (size_t d = 0; d < p.cfg.disks.size(); ++d) if (rng.chance(2, 3)) p.ops.push_back(Json::obj().set("k", "create").set("d", (int64_t)d).set("name", "shared/path").set("size", rng.range(1, 3000)).set("seed", rng.next() >> 1));
	CmdSpec s;
	s.cmd = "sync";
	p.ops.push_back(op_cmd(gen_sched(rng, s), "ok"));
	p.ops.push_back(Json::obj().set("k", "c20_views").set("pool", 1).set("seed", rng.next() >> 1));
	int rounds = (int)rng.range(0, tier ? 3 : 2);
	for (int r = 0; r < rounds; ++r) {
		for (auto& o : gen_mutations(rng, p.cfg, (int)rng.range(1, 6), true)) p.ops.push_back(o);
		if (rng.chance(1, 3)) p.ops.push_back(Json::obj().set("k", "silent").set("d", (int64_t)rng.below(8)).set("f", (int64_t)rng.below(32)).set("at", rng.next() >> 8));
		CmdSpec q;
		switch (rng.below(4)) {
		case 0: q.cmd = "sync"; q.opts = { "-E", "-Z", "-B", strf("%d", (int)rng.range(1, 5)) }; break;
		case 1: q.cmd = "scrub"; q.opts = { "-p", "full" }; break;
		default: q.cmd = "sync"; q.opts = { "-E", "-Z" }; break;
		}
		p.ops.push_back(op_cmd(gen_sched(rng, q)));
		p.ops.push_back(Json::obj().set("k", "c20_views").set("pool", (int)rng.below(2)).set("seed", rng.next() >> 1));
	}
	return p;
}

static struct RegViews {
	RegViews()
	{
		Exec::register_op("c20_views", op_c20_views);
		Family f;
		f.name = "views";
		f.prop = "C20";
		f.level = "exploration";
		f.gen = gen_views;
		register_family(f);
	}
} reg_views;
