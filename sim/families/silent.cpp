// family silent (C04): every silent corruption of synced data or parity is detected and located.
#include <fcntl.h>
#include <unistd.h>
#include <sys/stat.h>
#include "run.hpp"

RunPlan gen_history_to_synced(Rng& rng, const std::string& family, uint64_t seed, int tier, int max_disks);

namespace {

struct Target {
	bool parity;
	int file_idx; uint32_t block_idx;   // data
	int level;                          // parity
	uint32_t pos;
	std::string rel; uint64_t off; uint64_t len;
	bool semi = false;                  // data block of an unchanged, fully synced file in a stripe that other disks made unsynced
};

void corrupt(Exec& x, Rng& r, const Target& t, int shape)
{
	Bytes cur;
	x.sb.get_file(t.rel, cur);
	if (t.off >= cur.size()) return;
	uint64_t len = std::min<uint64_t>(t.len, cur.size() - t.off);
	Bytes nb = cur.substr((size_t)t.off, (size_t)len);
	switch (shape) {
	case 0: { size_t i = r.below(len); nb[i] = (char)(nb[i] ^ (1 << r.below(8))); break; }
	case 1: { size_t i = r.below(len); nb[i] = (char)(nb[i] + 1 + r.below(254)); break; }
	case 2: for (auto& c : nb) c = (char)(c ^ (1 + r.below(255))); break;
	default: { Bytes z(len, '\0'); if (z == nb) nb[0] = 1; else nb = z; break; }
	}
	x.sb.corrupt_bytes(t.rel, t.off, nb);
}

// log tags and -d filters always use the numeric names, also in z-mode
std::string level_name(const Exec&, int l) { return Config::level_name(l, false); }

} // namespace

static void op_c04_sweep(Exec& x, const Json& op, int)
{
	if (!x.have_synced) return;
	std::vector<LoadedContent> cs = load_contents(x.sb);
	const LoadedContent* lc = first_good(cs);
	if (!lc) { x.harness("c04: no content"); return; }
	const Content& c = lc->c;
	StripeMap sm = build_stripes(c);
	unsigned bs = c.block_size;
	// all blocks must be synced for the "exactly" part of the oracle. On an array that is only partly synced (a sync stopped
	// early) the fully synced stripes still promise detection: there only "reported, located, failing status, marked bad" is
	// judged, for damage in stripes whose blocks are all synced and whose files are unchanged on disk
	bool partial = false;
	for (auto& f : c.files) for (auto& b : f.blocks) if (b.state != BS_BLK) partial = true;
	for (auto& m : c.maps) if (!m.deleted.empty()) partial = true;
	std::vector<bool> clean(c.blockmax, true);
	std::vector<bool> file_same(c.files.size(), false);
	for (auto& m : c.maps) for (auto& kv : m.deleted) if (kv.first < c.blockmax) clean[kv.first] = false;
	for (auto& f : c.files) {
		const DiskCfg* d = x.sb.disk(c.maps[f.map_idx].name);
		uint64_t sz = 0; int64_t ms = 0, mns = 0;
		bool same = d && x.sb.stat_file(d->top + "/" + f.sub, sz, ms, mns) && sz == f.size && ms == f.mtime_sec && mns == f.mtime_nsec;
		file_same[(size_t)(&f - &c.files[0])] = same;
		if (!same) partial = true; // changed on disk and not recorded at all (the early-stopped sync was refused or failed)
		for (auto& b : f.blocks) if (b.pos < c.blockmax && (b.state != BS_BLK || !same)) clean[b.pos] = false;
	}
	if (partial && !op.num("partial")) return;
	// changes made after the last sync may touch only links or unrecorded names: no control runs and no exactness then either
	if (op.num("partial")) partial = true;
	if (partial) x.probe("c04.partly_synced_arrays");
	std::vector<Target> targets;
	for (size_t fi = 0; fi < c.files.size(); ++fi) {
		const CFile& f = c.files[fi];
		std::string rel = x.sb.disk(c.maps[f.map_idx].name)->top + "/" + f.sub;
		for (size_t bi = 0; bi < f.blocks.size(); ++bi) {
			if (f.blocks[bi].pos >= c.blockmax) continue;
			// a synced block of an unchanged file is verifiable by its own hash whatever the other disks of its stripe went
			// through (pending, freed or changed files there): the damage must still be reported, located and marked bad
			bool semi = !clean[f.blocks[bi].pos];
			if (semi && !(f.blocks[bi].state == BS_BLK && file_same[fi])) continue;
			Target t;
			t.semi = semi;
			t.parity = false; t.file_idx = (int)fi; t.block_idx = (uint32_t)bi; t.level = -1; t.pos = f.blocks[bi].pos;
			t.rel = rel; t.off = (uint64_t)bi * bs; t.len = std::min<uint64_t>(bs, f.size - t.off);
			targets.push_back(t);
		}
	}
	for (uint32_t pos = 0; pos < c.blockmax; ++pos) {
		bool used = false;
		for (auto& b : sm.at[pos]) if (b.file_idx >= 0) used = true;
		if (!used || !clean[pos]) continue;
		for (int l = 0; l < x.sb.cfg.np; ++l) {
			Target t;
			t.parity = true; t.file_idx = -1; t.block_idx = 0; t.level = l; t.pos = pos;
			t.rel = parity_location(x.sb, c, l, pos, t.off);
			t.len = bs;
			if (!t.rel.empty()) targets.push_back(t);
		}
	}
	if (targets.empty()) return;
	Snap pre = x.sb.snapshot_all();
	int64_t pre_now = x.sb.now_s;
	unsigned pre_idx = x.sb.cmd_index;
	auto reset = [&]() { x.sb.restore_all(pre); x.sb.now_s = pre_now; x.sb.cmd_index = pre_idx; };
	Rng r((uint64_t)op.num("seed"));
	static const char* cmdnames[] = { "check -a", "check", "scrub full", "scrub 100" };

	struct Case { std::vector<size_t> t; int shape; int cmd; uint64_t cseed; };
	std::vector<Case> cases;
	if (x.focused()) {
		Case cs1;
		for (auto& v : x.focus().at("t").a) cs1.t.push_back((size_t)v.i);
		cs1.shape = (int)x.focus().num("shape"); cs1.cmd = (int)x.focus().num("cmd"); cs1.cseed = (uint64_t)x.focus().num("cseed");
		cases.push_back(cs1);
	} else {
		int limit = (int)op.num("limit", 0);
		bool all = limit <= 0;
		// control: no damage, every command
		if (!partial) for (int cm = 0; cm < 4; ++cm) cases.push_back({ {}, 0, cm, 0 });
		std::vector<size_t> order(targets.size());
		for (size_t i = 0; i < order.size(); ++i) order[i] = i;
		for (size_t i = order.size(); i > 1; --i) std::swap(order[i - 1], order[r.below(i)]);
		size_t n = all ? order.size() : std::min<size_t>(order.size(), (size_t)limit);
		for (size_t i = 0; i < n; ++i) {
			const Target& t = targets[order[i]];
			int nshapes = all ? 4 : 1;
			for (int s = 0; s < nshapes; ++s) {
				int shape = all ? s : (int)r.below(4);
				int cm = t.parity ? 1 + (int)r.below(3) : (int)r.below(4);
				cases.push_back({ { order[i] }, shape, cm, r.next() >> 1 });
			}
		}
		// combined damage: two / three targets in different stripes (each stripe within the budget anyway for detection)
		int combos = all ? (int)std::min<size_t>(targets.size(), 24) : 2;
		for (int k = 0; k < combos && targets.size() >= 2; ++k) {
			Case cs1;
			size_t cnt = 2 + r.below(2);
			for (size_t q = 0; q < cnt; ++q) cs1.t.push_back(r.below(targets.size()));
			std::sort(cs1.t.begin(), cs1.t.end());
			cs1.t.erase(std::unique(cs1.t.begin(), cs1.t.end()), cs1.t.end());
			bool anyp = false;
			for (auto i : cs1.t) if (targets[i].parity) anyp = true;
			cs1.shape = (int)r.below(4);
			cs1.cmd = anyp ? 1 + (int)r.below(3) : (int)r.below(4);
			cs1.cseed = r.next() >> 1;
			cases.push_back(cs1);
		}
	}

	for (auto& cs1 : cases) {
		reset();
		Json focus = Json::obj();
		Json ta = Json::arr();
		for (auto i : cs1.t) ta.push((uint64_t)i);
		focus.set("t", ta).set("shape", cs1.shape).set("cmd", cs1.cmd).set("cseed", cs1.cseed);
		Rng cr(cs1.cseed);
		std::string what;
		std::set<uint32_t> bad_stripes;
		// expected tags
		std::set<std::string> expect; // "error:pos:disk:file" / "parity_error:pos:level"
		std::set<std::string> optional;
		for (auto i : cs1.t) {
			if (i >= targets.size()) continue;
			const Target& t = targets[i];
			corrupt(x, cr, t, cs1.shape);
			bad_stripes.insert(t.pos);
			if (t.parity) {
				// parity cannot be verified in a stripe that also has a damaged data block: the data error alone locates the stripe
				bool data_in_same = false;
				for (auto k : cs1.t) if (k < targets.size() && !targets[k].parity && targets[k].pos == t.pos) data_in_same = true;
				if (!data_in_same) expect.insert(strf("parity_error:%u:", t.pos) + level_name(x, t.level));
				else optional.insert(strf("parity_error:%u:", t.pos) + level_name(x, t.level));
				what += strf("parity %s pos %u; ", level_name(x, t.level).c_str(), t.pos);
			}
			else {
				const CFile& f = c.files[(size_t)t.file_idx];
				expect.insert(strf("error:%u:", t.pos) + c.maps[f.map_idx].name + ":" + f.sub);
				what += strf("%s block %u (pos %u); ", t.rel.c_str(), t.block_idx, t.pos);
			}
		}
		Snap damaged = x.sb.snapshot_all();
		CmdSpec s;
		switch (cs1.cmd) {
		case 0: s.cmd = "check"; s.opts = { "-a" }; break;
		case 1: s.cmd = "check"; break;
		case 2: s.cmd = "scrub"; s.opts = { "-p", "full" }; break;
		default: s.cmd = "scrub"; s.opts = { "-p", "100", "-o", "0" }; break;
		}
		s.sched_seed = mix64(cs1.cseed, 5);
		s.policy = (int)(cs1.cseed % 7);
		x.check_parity_every_cmd = false; // the array is deliberately damaged
		CmdResult r1 = x.cmd(s);
		++x.out.cases;
		std::string when = std::string(cmdnames[cs1.cmd]) + " with silent damage {" + what + strf("} shape %d", cs1.shape);
		if (r1.harness_error) { x.harness("c04"); return; }
		std::vector<Tag> tags = parse_tags(r1.log);
		std::set<std::string> got;
		for (auto& t : tags) {
			if (t.f.size() >= 4 && t.f[0] == "error") got.insert("error:" + t.f[1] + ":" + t.f[2] + ":" + t.f[3]);
			if (t.f.size() >= 3 && t.f[0] == "parity_error") got.insert("parity_error:" + t.f[1] + ":" + t.f[2]);
		}
		if (!cs1.t.empty()) {
			++x.out.nontrivial_cases;
			x.out.case_hashes.insert(mix64(hash_str(focus.dump()), x.plan->seed));
			for (auto& e : expect) if (!got.count(e)) x.violation("C04", "corruption-not-reported", when + ": no tag " + e + " (exit " + strf("%d", r1.exit_code) + ")", focus);
			if (r1.exit_code == 0) x.violation("C04", "corruption-exit-ok", when + ": exit status 0", focus);
		} else {
			if (r1.exit_code != 0) x.violation("C04", "false-alarm-exit", when + strf(": undamaged array, exit %d: ", r1.exit_code) + r1.err.substr(0, 200), focus);
		}
		if (!partial) for (auto& g : got) {
			if (expect.count(g) || optional.count(g)) continue;
			// with several damaged blocks in a stripe, check tries combinations of parity levels and names the whole set that
			// failed ("parity_error:<pos>:parity/2-parity"): right when the set contains a damaged level of that stripe
			bool set_ok = false;
			if (starts_with(g, "parity_error:") && g.find('/') != std::string::npos) {
				std::vector<std::string> f = split(g, ':');
				if (f.size() >= 3)
					for (auto& name : split(f[2], '/'))
						if (expect.count("parity_error:" + f[1] + ":" + name) || optional.count("parity_error:" + f[1] + ":" + name)) set_ok = true;
			}
			if (set_ok) { x.probe("c04.parity_set_named"); continue; }
			x.violation("C04", cs1.t.empty() ? "false-alarm-tag" : "wrong-location", when + ": unexpected tag " + g, focus);
		}
		// scrub: bad marks exactly on the affected stripes, visible in status
		if (s.cmd == "scrub") {
			std::vector<LoadedContent> after = load_contents(x.sb);
			const LoadedContent* la = first_good(after);
			if (!la) x.violation("C04", "no-content-after-scrub", when, focus);
			else {
				std::set<uint32_t> marked;
				for (uint32_t p = 0; p < la->c.blockmax; ++p) if (la->c.info[p].present && la->c.info[p].bad) marked.insert(p);
				for (auto p : bad_stripes) if (!marked.count(p)) x.violation("C04", "bad-mark-missing", when + strf(": stripe %u not marked bad", p), focus);
				for (auto p : marked) if (!bad_stripes.count(p) && (!partial || clean[p])) x.violation("C04", "bad-mark-spurious", when + strf(": stripe %u marked bad without damage", p), focus);
				CmdSpec st;
				st.cmd = "status";
				st.opts = { "-G" };
				CmdResult rs = x.cmd(st);
				std::vector<Tag> stags = parse_tags(rs.log);
				std::set<uint32_t> shown;
				for (auto& t : stags)
					if (t.f.size() >= 7 && t.f[0] == "block" && t.f[5] == "bad") shown.insert((uint32_t)strtoul(t.f[1].c_str(), 0, 10));
				if (shown != marked) x.violation("C04", "status-bad-list", when + strf(": status lists %zu bad stripes, content has %zu", shown.size(), marked.size()), focus);
				int64_t hb = -1;
				for (auto& t : stags) if (t.f.size() >= 3 && t.f[0] == "summary" && t.f[1] == "has_bad") hb = strtoll(t.f[2].c_str(), 0, 10);
				if (hb != (int64_t)marked.size()) x.violation("C04", "status-bad-count", when + strf(": summary:has_bad=%lld, content has %zu", (long long)hb, marked.size()), focus);
				x.probe("c04.scrub_cases");
			}
			// the marks do not blind later commands: a check still locates exactly the same data errors, and once the
			// data is back (here: restored from the harness copy) scrub -p bad verifies the stripes and clears the marks
			if (!cs1.t.empty() && !partial) {
				CmdSpec ca;
				ca.cmd = "check";
				ca.opts = { "-a" };
				CmdResult rc = x.cmd(ca);
				std::set<std::string> got2, exp2;
				for (auto& t : parse_tags(rc.log)) if (t.f.size() >= 4 && t.f[0] == "error") got2.insert("error:" + t.f[1] + ":" + t.f[2] + ":" + t.f[3]);
				for (auto& e : expect) if (starts_with(e, "error:")) exp2.insert(e);
				if (got2 != exp2) {
					std::string d;
					for (auto& e : got2) if (!exp2.count(e)) d += "+" + e + " ";
					for (auto& e : exp2) if (!got2.count(e)) d += "-" + e + " ";
					x.violation("C04", "later-check-mislocates", when + ": check -a after the scrub: " + d.substr(0, 300), focus);
				}
				// put every damaged file and parity block back and let scrub -p bad re-verify
				for (auto i : cs1.t) {
					if (i >= targets.size()) continue;
					const Target& t = targets[i];
					auto it = pre.find(t.rel);
					if (it != pre.end()) x.sb.corrupt_bytes(t.rel, t.off, it->second.data.substr((size_t)t.off, (size_t)t.len));
				}
				CmdSpec sb2;
				sb2.cmd = "scrub";
				sb2.opts = { "-p", "bad" };
				CmdResult rb = x.cmd(sb2);
				std::vector<LoadedContent> a2 = load_contents(x.sb);
				const LoadedContent* l2 = first_good(a2);
				unsigned still = 0;
				if (l2) for (uint32_t p = 0; p < l2->c.blockmax; ++p) if (l2->c.info[p].present && l2->c.info[p].bad) ++still;
				if (rb.exit_code != 0 || still) x.violation("C04", "bad-mark-never-clears", when + strf(": after the damage was undone scrub -p bad exits %d and %u stripes stay bad", rb.exit_code, still), focus);
				x.probe("c04.scrub_followups");
			}
			// nothing but the content files changed
			Snap now = x.sb.snapshot_all();
			for (auto& kv : ((cs1.t.empty() || partial) ? damaged : pre)) {
				bool is_content = false;
				for (auto& cf : x.sb.cfg.content) if (kv.first == cf || starts_with(kv.first, cf + ".")) is_content = true;
				if (is_content) continue;
				auto it = now.find(kv.first);
				if (it == now.end() || it->second.data != kv.second.data) { x.violation("C04", "scrub-changed-files", when + ": " + kv.first + " changed", focus); break; }
			}
		} else {
			Snap now = x.sb.snapshot_all();
			std::string d = snap_diff(damaged, now, true);
			// the lock file may appear
			if (!d.empty() && d.find(".lock") == std::string::npos) x.violation("C04", "check-changed-files", when + ": " + d, focus);
			x.probe(cs1.cmd == 0 ? "c04.audit_cases" : "c04.check_cases");
		}
		x.check_parity_every_cmd = true;
		if (!cs1.t.empty()) { bool anyp = false, anyd = false; for (auto i : cs1.t) { if (targets[i].semi) x.probe("c04.data_targets_in_unsynced_stripes"); if (targets[i].parity) anyp = true; else anyd = true; } if (anyp) x.probe("c04.parity_targets"); if (anyd) x.probe("c04.data_targets"); if (cs1.t.size() > 1) x.probe("c04.combined"); }
	}
	reset();
	x.out.nontrivial = x.out.nontrivial_cases > 0;
	Json smp = Json::obj();
	smp.set("family", "silent").set("seed", x.plan->seed).set("targets", (uint64_t)targets.size()).set("cases", (uint64_t)cases.size()).set("disks", (uint64_t)x.sb.cfg.disks.size()).set("parities", x.sb.cfg.np);
	if (!targets.empty()) smp.set("example_target", targets[0].rel + strf("@%llu", (unsigned long long)targets[0].off));
	x.out.sample = smp;
}

static RunPlan gen_silent(uint64_t seed, int tier)
{
	Rng rng(seed);
	RunPlan p = gen_history_to_synced(rng, "silent", seed, tier, 5);
	// sometimes the array was just converted to the other hash kind: every stripe still carries old-kind hashes
	if (rng.chance(1, 5)) p.ops.push_back(Json::obj().set("k", "rehash").set("seed", rng.next() >> 1));
	bool partial = rng.chance(1, 4);
	if (partial) {
		// changes recorded by a sync that stops early: pending and freed blocks in some stripes, the others stay fully synced
		for (auto& o : gen_mutations(rng, p.cfg, (int)rng.range(1, 4))) p.ops.push_back(o);
		p.ops.push_back(Json::obj().set("k", "delete").set("d", (int64_t)rng.below(p.cfg.disks.size())).set("f", (int64_t)rng.below(32)));
		CmdSpec s;
		s.cmd = "sync";
		s.opts = { "-E", "-Z" };
		if (rng.chance(1, 2)) { s.opts.push_back("-S"); s.opts.push_back(strf("%d", (int)rng.range(1, 6))); }
		else { s.opts.push_back("-B"); s.opts.push_back(strf("%d", (int)rng.range(1, 3))); }
		p.ops.push_back(op_cmd(gen_sched(rng, s)));
	}
	uint64_t sweep_seed = rng.next() >> 1;
	// sometimes files are rewritten, extended or touched after the last sync and not recorded at all: their stripes are
	// unsynced for scrub and check, the synced blocks of the other disks in those stripes stay verifiable
	if (rng.chance(1, 3)) {
		int n = (int)rng.range(1, 3);
		for (int i = 0; i < n; ++i) {
			Json o = Json::obj();
			int64_t d = (int64_t)rng.below(p.cfg.disks.size()), f = (int64_t)rng.below(32);
			switch (rng.below(3)) {
			case 0: o.set("k", "overwrite").set("d", d).set("f", f).set("size", gen_size(rng, p.cfg.block_size())).set("seed", rng.next() >> 1).set("new_inode", (int)rng.below(2)); break;
			case 1: o.set("k", "append").set("d", d).set("f", f).set("n", rng.range(1, 3 * p.cfg.block_size())).set("seed", rng.next() >> 1); break;
			default: o.set("k", "touch").set("d", d).set("f", f); break;
			}
			p.ops.push_back(o);
		}
		partial = true;
	}
	p.ops.push_back(Json::obj().set("k", "c04_sweep").set("seed", sweep_seed).set("limit", tier ? 0 : 14).set("partial", partial ? 1 : 0));
	return p;
}

static struct RegSilent {
	RegSilent()
	{
		Exec::register_op("c04_sweep", op_c04_sweep);
		Family f;
		f.name = "silent";
		f.prop = "C04";
		f.level = "fault_enumeration";
		f.gen = gen_silent;
		register_family(f);
	}
} reg_silent;
