// family ioerr (C08): every data read / parity read / parity write of sync and scrub fails once
// with EIO (ENOSPC for some parity writes), addressed by logical identity (file, offset), under
// several cache depths and schedules.
#include <errno.h>
#include <fcntl.h>
#include <unistd.h>
#include <sys/stat.h>
#include "run.hpp"

CmdSpec gen_sync_variant(Rng& rng, const Config& cfg);

namespace {

struct IoTarget {
	int opc;            // OPC_PREAD / OPC_PWRITE
	std::string rel;
	int64_t off;
	bool parity;
	int level;
	uint32_t pos;       // parity position (data: looked up through the content map)
	std::string disk, sub; // data
	uint32_t file_block;
};

bool stripe_healthy_synced(const Content& c, const StripeMap& sm, uint32_t pos)
{
	if (pos >= c.blockmax) return false;
	if (!stripe_all_blk(sm.at[pos])) return false;
	return !(c.info[pos].present && c.info[pos].bad);
}

} // namespace

static void op_c08_sweep(Exec& x, const Json& op, int)
{
	CmdSpec spec = CmdSpec::from_json(op.at("spec"));
	bool is_scrub = spec.cmd == "scrub";
	Snap pre = x.sb.snapshot_all();
	int64_t pre_now = x.sb.now_s;
	unsigned pre_idx = x.sb.cmd_index;
	auto reset = [&]() { x.sb.restore_all(pre); x.sb.now_s = pre_now; x.sb.cmd_index = pre_idx; };

	// "dirty": files were changed since the last sync, so the fault-free scrub already ends with file errors; an I/O error in
	// one of those stripes is still an I/O error (judged: status, diagnostic, counter, bad mark; not the repair path)
	bool dirty = is_scrub && op.num("dirty") != 0;
	bool saved_ref = x.check_parity_every_cmd;
	if (dirty) x.check_parity_every_cmd = false;
	CmdResult ref = x.cmd(spec);
	x.check_parity_every_cmd = saved_ref;
	if (ref.exit_code != 0 && !(dirty && ref.exit_code < 90 && !ref.term_sig)) { x.probe("c08.reference_failed"); reset(); return; }
	if (dirty && ref.exit_code != 0) x.probe("c08.scrub_over_changed_files");
	std::vector<LoadedContent> refc = load_contents(x.sb);
	const LoadedContent* rc = first_good(refc);
	if (!rc) { x.harness("c08: no content after reference"); return; }
	Content refcontent = rc->c;
	StripeMap refsm = build_stripes(refcontent);
	unsigned bs = refcontent.block_size;

	// logical targets from the fault-free trace
	std::vector<IoTarget> targets;
	std::set<std::string> seen;
	auto file_pos_to_parity = [&](const std::string& disk, const std::string& sub, uint32_t fb, uint32_t& pos) {
		for (auto& f : refcontent.files)
			if (refcontent.maps[f.map_idx].name == disk && f.sub == sub && fb < f.blocks.size()) { pos = f.blocks[fb].pos; return true; }
		return false;
	};
	for (auto& e : ref.trace) {
		if (e.kind != EV_PREAD && e.kind != EV_PWRITE) continue;
		const std::string& p = ref.path(e.path);
		IoTarget t;
		t.opc = e.kind == EV_PREAD ? OPC_PREAD : OPC_PWRITE;
		t.rel = p;
		t.off = e.off;
		t.parity = false;
		t.level = -1;
		t.pos = 0;
		t.file_block = 0;
		bool ok = false;
		for (int l = 0; l < x.sb.cfg.np && !ok; ++l) {
			uint64_t base = 0;
			for (int s = 0; s < x.sb.cfg.splits[(size_t)l]; ++s) {
				if (p == x.sb.cfg.parity_rel(l, s)) {
					// position = (sum of recorded sizes of previous splits + off) / bs
					for (auto& q : refcontent.parities)
						if ((int)q.level == l && q.v3)
							for (int k = 0; k < s && k < (int)q.splits.size(); ++k) base += q.splits[(size_t)k].size;
					t.parity = true; t.level = l; t.pos = (uint32_t)((base + (uint64_t)e.off) / bs);
					ok = true;
				}
			}
		}
		if (!ok) {
			for (auto& d : x.sb.cfg.disks)
				if (starts_with(p, d.top + "/")) {
					t.disk = d.name; t.sub = p.substr(d.top.size() + 1); t.file_block = (uint32_t)(e.off / bs);
					if (e.off % bs) break; // continuation of a short read
					if (file_pos_to_parity(t.disk, t.sub, t.file_block, t.pos)) ok = true;
				}
		}
		if (!ok) continue;
		std::string key = strf("%d:%s:%lld", t.opc, t.rel.c_str(), (long long)t.off);
		if (!seen.insert(key).second) continue;
		targets.push_back(t);
	}
	if (targets.empty()) { reset(); return; }
	x.probe("c08.targets", targets.size());

	struct Case { size_t t; int err; int depth; uint64_t sseed; size_t t2; };
	std::vector<Case> cases;
	static const int depths[] = { 1, 3, 5, 17, 128 };
	Rng r((uint64_t)op.num("seed"));
	if (x.focused()) {
		const Json& f = x.focus();
		cases.push_back({ (size_t)f.num("t"), (int)f.num("err"), (int)f.num("depth"), (uint64_t)f.num("sseed"), (size_t)f.num("t2", -1) });
	} else {
		int limit = (int)op.num("limit", 0);
		std::vector<size_t> order(targets.size());
		for (size_t i = 0; i < order.size(); ++i) order[i] = i;
		for (size_t i = order.size(); i > 1; --i) std::swap(order[i - 1], order[r.below(i)]);
		size_t n = limit > 0 ? std::min<size_t>((size_t)limit, order.size()) : order.size();
		// always include the last targets (the last cache-depth stripes) and the first
		std::set<size_t> chosen;
		for (size_t i = 0; i < n; ++i) chosen.insert(order[i]);
		chosen.insert(0);
		chosen.insert(targets.size() - 1);
		if (targets.size() > 2) chosen.insert(targets.size() - 2);
		for (auto ti : chosen) {
			int ndep = limit > 0 ? 2 : 5;
			for (int k = 0; k < ndep; ++k) {
				int depth = limit > 0 ? depths[r.below(5)] : depths[k];
				int err = EIO;
				if (targets[ti].opc == OPC_PWRITE && r.chance(1, 4)) err = ENOSPC;
				cases.push_back({ ti, err, depth, r.next() >> 1, (size_t)-1 });
			}
		}
		// two simultaneous faults
		int pairs = limit > 0 ? 2 : (int)std::min<size_t>(12, targets.size());
		for (int k = 0; k < pairs && targets.size() >= 2; ++k) {
			size_t a = r.below(targets.size()), b = r.below(targets.size());
			if (a != b) cases.push_back({ a, EIO, depths[r.below(5)], r.next() >> 1, b });
		}
	}

	for (auto& cs : cases) {
		if (cs.t >= targets.size()) continue;
		reset();
		const IoTarget& t = targets[cs.t];
		Json focus = Json::obj().set("t", (uint64_t)cs.t).set("err", cs.err).set("depth", cs.depth).set("sseed", cs.sseed).set("t2", (int64_t)cs.t2);
		CmdSpec s = spec;
		// replace the cache depth
		for (size_t i = 0; i + 1 < s.opts.size(); ++i)
			if (s.opts[i] == "--test-io-cache") { s.opts.erase(s.opts.begin() + (long)i, s.opts.begin() + (long)i + 2); break; }
		s.opts.push_back("--test-io-cache");
		s.opts.push_back(strf("%d", cs.depth));
		s.sched_seed = cs.sseed;
		s.policy = (int)(cs.sseed % 7);
		s.policy_param = s.policy == SP_STARVE ? 100 + (int)(cs.sseed % 5) : (int)(1 + cs.sseed % 3);
		std::vector<const IoTarget*> hit = { &t };
		if (cs.t2 != (size_t)-1 && cs.t2 < targets.size()) hit.push_back(&targets[cs.t2]);
		for (auto h : hit) {
			Fault f;
			f.f.kind = FK_ERRNO;
			f.f.opmask = h->opc;
			snprintf(f.f.path, sizeof(f.f.path), "%s", h->rel.c_str());
			f.f.off_lo = h->off;
			f.f.off_hi = h->off + 1;
			f.f.err = cs.err;
			f.f.count = 1;
			s.faults.push_back(f);
		}
		bool saved_cp = x.check_parity_every_cmd;
		x.check_parity_every_cmd = false; // judged below with attribution to C08
		CmdResult r1 = x.cmd(s);
		x.check_parity_every_cmd = saved_cp;
		++x.out.cases;
		if (r1.harness_error) { x.harness("c08"); return; }
		unsigned fired = 0;
		{
			// only the faults that actually fired are judged
			std::vector<const IoTarget*> really;
			for (int i = 0; i < r1.info.nfaults && i < (int)hit.size(); ++i)
				if (r1.info.faults[i].fired) { fired += (unsigned)r1.info.faults[i].fired; really.push_back(hit[(size_t)i]); }
			hit = really;
		}
		if (!fired) { x.probe("c08.fault_not_reached"); continue; }
		// with --pre-hash a read error in the hashing phase stops the whole sync before any parity is touched (documented)
		bool prehash_stop = false;
		if (std::find(spec.opts.begin(), spec.opts.end(), std::string("-h")) != spec.opts.end()) {
			bool parity_written = false;
			for (auto& e : r1.trace) if (e.kind == EV_PWRITE && e.res > 0) parity_written = true;
			prehash_stop = !parity_written;
			if (prehash_stop) x.probe("c08.prehash_stop");
		}
		++x.out.nontrivial_cases;
		x.out.case_hashes.insert(mix64(hash_str(focus.dump()), x.plan->seed));
		std::string what = strf("%s %s@%lld (stripe %u%s) fails with %s, io cache %d", t.opc == OPC_PREAD ? "read of" : "write of", t.rel.c_str(), (long long)t.off, t.pos,
			t.parity ? strf(", level %d", t.level).c_str() : "", cs.err == EIO ? "EIO" : "ENOSPC", cs.depth);
		if (hit.size() > 1) what += strf(" + %s@%lld (stripe %u)", hit[1]->rel.c_str(), (long long)hit[1]->off, hit[1]->pos);
		std::string when = spec.cmd + ": " + what;
		if (cs.depth == 1) x.probe("c08.mono_cases"); else x.probe("c08.threaded_cases");
		if (t.parity && t.opc == OPC_PWRITE) x.probe("c08.parity_write_faults");
		if (t.parity && t.opc == OPC_PREAD) x.probe("c08.parity_read_faults");
		if (!t.parity) x.probe("c08.data_read_faults");
		if (cs.err == ENOSPC) x.probe("c08.enospc");

		// 1. failing status and a diagnostic
		const IoTarget& t0 = *hit[0];
		std::vector<Tag> tags = parse_tags(r1.log);
		if (r1.exit_code == 0) x.violation("C08", "io-error-exit-ok", when + ": the command ended with success", focus);
		bool diag = false;
		for (auto& tg : tags) {
			if (t0.parity && tg.f.size() >= 3 && tg.f[0] == "parity_error" && (uint32_t)strtoul(tg.f[1].c_str(), 0, 10) == t0.pos) diag = true;
			if (!t0.parity && tg.f.size() >= 4 && tg.f[0] == "error" && tg.f[2] == t0.disk && tg.f[3] == t0.sub) diag = true;
		}
		if (!diag && r1.err.find("rror") == std::string::npos) x.violation("C08", "io-error-no-diagnostic", when + ": neither a log tag nor a message names the failure", focus);
		if (cs.err == EIO && r1.exit_code != 0 && r1.exit_code < 90) {
			int64_t eio = summary_value(tags, "error_io");
			if (eio == 0) x.violation("C08", "io-error-not-counted", when + ": summary:error_io is 0", focus);
			// every failing call is one error, whatever the cache depth
			// (failures of several writers reported by the same io_write_next count once per kind: at most one error per failed call)
			else if (!prehash_stop && eio > 0 && (unsigned)eio > fired) x.violation("C08", "io-error-miscounted", when + strf(": summary:error_io is %lld for %u failed calls", (long long)eio, fired), focus);
		}

		// 2. the stripe is not recorded as synced and healthy unless its parity really is right
		std::vector<LoadedContent> after = load_contents(x.sb);
		const LoadedContent* la = first_good(after);
		if (!la) { x.violation("C08", "no-content-after-io-error", when, focus); continue; }
		StripeMap sm = build_stripes(la->c);
		ParityReport pr = parity_ok(x.sb, la->c);
		std::set<uint32_t> badpar(pr.bad_parity_pos.begin(), pr.bad_parity_pos.end());
		for (auto h : hit) {
			if (stripe_healthy_synced(la->c, sm, h->pos)) {
				if (badpar.count(h->pos)) x.violation("C08", "failed-io-recorded-as-synced", when + strf(": stripe %u (failed %s %s@%lld) is recorded as synced and not bad, and its parity is wrong", h->pos, h->opc == OPC_PREAD ? "read of" : "write of", h->rel.c_str(), (long long)h->off), focus);
				else if (!is_scrub && h->parity && h->opc == OPC_PWRITE) x.probe("c08.failed_write_but_parity_right");
				else if (is_scrub || !h->parity) x.violation("C08", "failed-read-recorded-as-healthy", when + strf(": stripe %u is recorded as synced and not marked bad although its %s could not be read", h->pos, h->parity ? "parity" : "data"), focus);
			} else
				x.probe("c08.stripe_left_unsynced_or_bad");
		}
		// any other false protection
		for (auto p : pr.bad_parity_pos) {
			bool is_hit = false;
			for (auto h : hit) if (h->pos == p) is_hit = true;
			if (!is_hit) x.violation("C08", "other-stripe-false-protection", when + strf(": stripe %u (not the one hit) is recorded as synced with wrong parity", p), focus);
		}
		for (auto& p : pr.problems) if (starts_with(p, "map:")) x.violation("C06", "map-invariant", when + ": " + p, focus);

		// 3. all other stripes processed normally (EIO is a continue-type error)
		if (cs.err == EIO && !is_scrub && !prehash_stop && r1.exit_code != 0 && r1.exit_code < 90 && la->c.blockmax == refcontent.blockmax) {
			unsigned lag = 0;
			for (uint32_t p = 0; p < refcontent.blockmax; ++p) {
				bool is_hit = false;
				for (auto h : hit) if (h->pos == p) is_hit = true;
				if (is_hit) continue;
				if (stripe_all_blk(refsm.at[p]) && !stripe_all_blk(sm.at[p])) ++lag;
			}
			if (lag) x.violation("C08", "other-stripes-not-processed", when + strf(": %u other stripes that a fault-free run syncs were left unsynced", lag), focus);
		}

		// 4. repair path: fix -e, scrub -p bad, sync => clean
		if (!dirty) {
			CmdSpec fx;
			fx.cmd = "fix";
			fx.opts = { "-e" };
			fx.sched_seed = cs.sseed + 1;
			x.check_parity_every_cmd = false;
			CmdResult rf = x.cmd(fx);
			x.check_parity_every_cmd = saved_cp;
			CmdSpec sy;
			sy.cmd = "sync";
			for (auto& o : spec.opts) if (o == "-E" || o == "-Z") sy.opts.push_back(o);
			sy.sched_seed = cs.sseed + 2;
			CmdResult rs = x.cmd(sy);
			CmdSpec sc;
			sc.cmd = "scrub";
			sc.opts = { "-p", "bad" };
			sc.sched_seed = cs.sseed + 3;
			CmdResult rb = x.cmd(sc);
			if (rf.exit_code != 0 || rs.exit_code != 0 || rb.exit_code != 0)
				x.violation("C08", "repair-path-fails", when + strf(": fix -e exit %d, sync exit %d, scrub -p bad exit %d", rf.exit_code, rs.exit_code, rb.exit_code), focus);
			else {
				std::vector<LoadedContent> fin = load_contents(x.sb);
				const LoadedContent* lf = first_good(fin);
				if (lf) {
					unsigned bad = 0, unsynced = 0;
					StripeMap fsm = build_stripes(lf->c);
					for (uint32_t p = 0; p < lf->c.blockmax; ++p) {
						if (lf->c.info[p].present && lf->c.info[p].bad) ++bad;
						bool any = false;
						for (auto& b : fsm.at[p]) if (b.file_idx >= 0) any = true;
						if (any && !stripe_all_blk(fsm.at[p])) ++unsynced;
					}
					if (bad || unsynced) x.violation("C08", "repair-path-incomplete", when + strf(": after fix -e + sync + scrub -p bad: %u bad, %u unsynced stripes", bad, unsynced), focus);
				}
			}
		}
	}
	reset();
	if (dirty) x.check_parity_every_cmd = false;
	x.cmd(spec);
	x.check_parity_every_cmd = saved_ref;
	x.out.nontrivial = x.out.nontrivial_cases > 0;
	Json smp = Json::obj();
	std::string c = spec.cmd;
	for (auto& o : spec.opts) c += " " + o;
	smp.set("family", "ioerr").set("seed", x.plan->seed).set("command", c).set("targets", (uint64_t)targets.size()).set("cases", (uint64_t)cases.size());
	if (!targets.empty()) smp.set("example_target", strf("%s %s@%lld stripe %u", targets[0].opc == OPC_PREAD ? "pread" : "pwrite", targets[0].rel.c_str(), (long long)targets[0].off, targets[0].pos));
	x.out.sample = smp;
}

static RunPlan gen_ioerr(uint64_t seed, int tier)
{
	Rng rng(seed);
	RunPlan p;
	p.family = "ioerr";
	p.seed = seed;
	p.cfg = gen_config(rng, 4, 4, true);
	// errors of writes that complete while an autosave drains the writers must be counted like any other
	p.cfg.autosave_at = rng.chance(1, 4) ? (int)rng.range(1, 8) : 0;
	for (auto& o : gen_populate(rng, p.cfg, 1, 4)) p.ops.push_back(o);
	bool scrub = rng.chance(1, 3);
	if (scrub || rng.chance(1, 2)) {
		CmdSpec base;
		base.cmd = "sync";
		base = gen_sched(rng, base);
		Json b = op_cmd(base, "ok");
		b.set("mark_synced", 1);
		p.ops.push_back(b);
	}
	CmdSpec s;
	bool dirty = false;
	if (scrub) {
		s.cmd = "scrub";
		s.opts = { "-p", "full" };
		// sometimes files changed since the sync: the stripe that gets the I/O error may also hold one of them
		if (rng.chance(1, 2)) { dirty = true; for (auto& o : gen_mutations(rng, p.cfg, (int)rng.range(1, 4))) p.ops.push_back(o); }
	} else {
		for (auto& o : gen_mutations(rng, p.cfg, (int)rng.range(1, 5))) p.ops.push_back(o);
		s.cmd = "sync";
		s.opts = { "-E", "-Z" };
		if (rng.chance(1, 5)) s.opts.push_back("-F");
		if (rng.chance(1, 6)) s.opts.push_back("-h");
	}
	s = gen_sched(rng, s);
	p.ops.push_back(Json::obj().set("k", "c08_sweep").set("spec", s.to_json()).set("seed", rng.next() >> 1).set("limit", tier ? 0 : 8).set("dirty", dirty ? 1 : 0));
	return p;
}

static struct RegIoerr {
	RegIoerr()
	{
		Exec::register_op("c08_sweep", op_c08_sweep);
		Family f;
		f.name = "ioerr";
		f.prop = "C08";
		f.level = "fault_enumeration";
		f.gen = gen_ioerr;
		register_family(f);
	}
} reg_ioerr;
