// family fixsafe (C05): whatever the damage and however the last sync ended, after fix every recorded file either has
// exactly the recorded bytes or is explicitly reported unrecoverable; nothing outside the selection is written.
#include <fcntl.h>
#include <unistd.h>
#include <errno.h>
#include <sys/stat.h>
#include "run.hpp"

CmdSpec gen_sync_variant(Rng& rng, const Config& cfg);

// sync during which a file is changed / removed / unreadable exactly when sync first opens it
static void op_c05_sync_change(Exec& x, const Json& op, int)
{
	CmdSpec spec = CmdSpec::from_json(op.at("spec"));
	std::string rel = x.pick_file(op.num("d"), op.num("f"));
	if (!rel.empty()) {
		Fault f;
		int action = (int)op.num("action");
		snprintf(f.f.path, sizeof(f.f.path), "%s", rel.c_str());
		if (action == 100) {
			f.f.kind = FK_ERRNO; f.f.opmask = OPC_PREAD; f.f.err = EIO; f.f.count = 1; f.f.nth = (int)op.num("nth");
		} else if (action == 101) {
			f.f.kind = FK_ERRNO; f.f.opmask = OPC_OPEN_RD; f.f.err = EACCES; f.f.count = 1; f.f.nth = (int)op.num("nth");
		} else {
			f.f.kind = FK_CONCURRENT;
			f.f.opmask = OPC_OPEN_RD;
			f.f.nth = (int)op.num("nth"); // scan does not open files; pre-hash / sync do
			f.f.action = action;
			snprintf(f.f.apath, sizeof(f.f.apath), "%s", rel.c_str());
			int64_t s, ns;
			x.sb.next_stamp(s, ns);
			f.f.asec = s; f.f.ansec = ns;
			f.f.asize = op.num("asize");
			f.f.aseed = (uint64_t)op.num("aseed");
			f.f.count = 1;
		}
		spec.faults.push_back(f);
	}
	CmdResult r = x.cmd(spec);
	for (int i = 0; i < r.info.nfaults; ++i) if (r.info.faults[i].fired) x.probe("c05.sync_disturbed");
	if (r.exit_code != 0) x.probe("c05.sync_ended_with_error");
}

namespace {
bool tool_file(const Sandbox& sb, const std::string& rel)
{
	for (auto& c : sb.cfg.content) if (rel == c || starts_with(rel, c + ".")) return true;
	return false;
}
}

static void op_c05_fix(Exec& x, const Json& op, int)
{
	CmdSpec spec = CmdSpec::from_json(op.at("spec"));
	const std::string P = op.str("as", "C05"); // the decoy family judges the same oracle under C19
	std::vector<LoadedContent> cs = load_contents(x.sb);
	const LoadedContent* lc = first_good(cs);
	if (!lc) { x.probe("c05.no_content"); return; }
	const Content& c = lc->c;
	x.sb.observe_versions();
	// the versions known BEFORE the fix: whatever fix writes under a recorded stamp must not become its own reference
	VersionStore versions_before = x.sb.versions;
	Snap before = x.sb.snapshot(x.sb.data_tops());
	bool saved = x.check_parity_every_cmd;
	x.check_parity_every_cmd = false;
	CmdResult r = x.cmd(spec);
	x.check_parity_every_cmd = saved;
	if (r.harness_error) { x.harness("c05 fix"); return; }
	Snap after = x.sb.snapshot(x.sb.data_tops());
	if (spec.cmd == "check") {
		// check never writes: decoys, import directories and duplicates are only read
		std::string d = snap_diff(before, after, true);
		if (!d.empty()) x.violation(P, "check-modified-files", "check: " + d);
		++x.out.cases;
		return;
	}
	std::vector<Tag> tags = parse_tags(r.log);
	std::string cl = "fix";
	for (auto& o : spec.opts) cl += " " + o;
	cl += strf(" (exit %d, hashsize %d)", r.exit_code, x.sb.cfg.hash_size);
	bool filtered = !spec.opts.empty();
	bool only_bad_blocks = std::find(spec.opts.begin(), spec.opts.end(), std::string("-b")) != spec.opts.end();
	++x.out.cases;

	std::set<std::string> reported_unrec, reported_rec, mentioned;
	for (auto& t : tags) {
		if (t.f.size() >= 4 && t.f[0] == "status") {
			const DiskCfg* d = x.sb.disk(t.f[2]);
			if (!d) continue;
			std::string rel = d->top + "/" + t.f[3];
			mentioned.insert(rel);
			if (t.f[1] == "unrecoverable") reported_unrec.insert(rel);
			if (t.f[1] == "recovered") reported_rec.insert(rel);
		}
		// error:/unrecoverable: lines also appear for files that merely share a stripe with a selected file: only
		// fixed: and status: say that fix took responsibility for the file
		if (t.f.size() >= 4 && t.f[0] == "fixed") {
			const DiskCfg* d = x.sb.disk(t.f[2]);
			if (d) mentioned.insert(d->top + "/" + t.f[3]);
		}
	}
	int64_t sum_unrec = summary_value(tags, "error_unrecoverable", 0);
	// -b works on single blocks and prints no per-file status: its report of a block it cannot rebuild is the unrecoverable:
	// tag (position, disk, file) together with the unrecoverable count and the failing status
	if (only_bad_blocks && r.exit_code != 0 && sum_unrec > 0)
		for (auto& t : tags)
			if (t.f.size() >= 4 && t.f[0] == "unrecoverable") {
				const DiskCfg* d = x.sb.disk(t.f[2]);
				if (d) { reported_unrec.insert(d->top + "/" + t.f[3]); mentioned.insert(d->top + "/" + t.f[3]); }
			}
	// empty files have no status: line; when fix cannot re-create one (e.g. its name is now a dangling symlink) it names the
	// file in an "Empty file" error, counts an unrecoverable error and fails: that is a report
	if (r.exit_code != 0 && sum_unrec > 0)
		for (auto& t : tags)
			if (t.f.size() >= 4 && t.f[0] == "error" && t.f[3].find("Empty file") != std::string::npos) {
				const DiskCfg* d = x.sb.disk(t.f[1]);
				if (d) { reported_unrec.insert(d->top + "/" + t.f[2]); mentioned.insert(d->top + "/" + t.f[2]); }
			}
	// a fix that stops on a fatal error (no summary at all, failing exit) claims nothing about the files it did not report
	bool aborted = r.exit_code != 0 && (summary_value(tags, "error", -1) < 0 || r.err.find("Stopping at block") != std::string::npos);
	if (aborted) x.probe("c05.fix_aborted");
	unsigned judged = 0;
	for (auto& f : c.files) {
		const DiskCfg* d = x.sb.disk(c.maps[f.map_idx].name);
		if (!d) continue;
		std::string rel = d->top + "/" + f.sub;
		bool touched = mentioned.count(rel) != 0;
		auto ita = after.find(rel);
		auto itb = before.find(rel);
		bool changed = (ita == after.end()) != (itb == before.end()) || (ita != after.end() && itb != before.end() && ita->second.data != itb->second.data);
		if (filtered && !touched) {
			// outside the selection (or nothing to do): must not have been written
			if (changed && !aborted) x.violation(P, "written-outside-selection", cl + ": " + rel + " changed although fix reported nothing about it");
			continue;
		}
		if (!touched && !changed && filtered) continue;
		// recorded version(s)
		const auto* vs = versions_before.all(c.maps[f.map_idx].name, f.sub, f.size, f.mtime_sec, f.mtime_nsec);
		if (!vs || vs->empty()) { x.probe("c05.recorded_version_unknown"); continue; }
		std::vector<const Bytes*> good;
		for (auto& v : *vs) {
			bool ok = true;
			for (size_t bi = 0; bi < f.blocks.size() && ok; ++bi) {
				if (f.blocks[bi].state == BS_CHG) continue;
				uint64_t off = (uint64_t)bi * c.block_size;
				Bytes blk(*v, off, std::min<uint64_t>(c.block_size, v->size() - off));
				bool rehash = c.info[f.blocks[bi].pos].present && c.info[f.blocks[bi].pos].rehash;
				Bytes h = ref_hash(c, blk, rehash);
				// REP hashes are inherited and may legitimately not match; BLK must
				if (f.blocks[bi].state == BS_BLK && !h.empty() && h != f.blocks[bi].hash) ok = false;
			}
			if (ok) good.push_back(v.get());
		}
		if (good.empty()) { x.probe("c05.no_version_matches_recorded_hashes"); continue; }
		++judged;
		bool is_reported = reported_unrec.count(rel) != 0;
		bool present = ita != after.end() && ita->second.type == 'f';
		bool correct = false;       // exactly a recorded version
		bool correct_hashed = false; // equal to a recorded version in every block that has a recorded hash (and same size):
		                             // blocks still pending at the last sync carry no hash, nothing is claimed about them
		if (present) for (auto g : good) {
			const Bytes& d = ita->second.data;
			if (*g == d) correct = true;
			if (g->size() == d.size()) {
				bool same = true;
				for (size_t bi = 0; bi < f.blocks.size() && same; ++bi) {
					if (f.blocks[bi].state == BS_CHG) continue;
					// -b selects single blocks: only those of stripes marked bad are in the selection
					if (only_bad_blocks && !(c.info[f.blocks[bi].pos].present && c.info[f.blocks[bi].pos].bad)) continue;
					uint64_t off = (uint64_t)bi * c.block_size;
					uint64_t len = std::min<uint64_t>(c.block_size, d.size() - off);
					if (memcmp(d.data() + off, g->data() + off, len) == 0) continue;
					// a block whose bytes hash to the recorded hash is the recorded block (a provisional hash inherited by copy
					// detection is what the content file records for that block)
					bool rehash = c.info[f.blocks[bi].pos].present && c.info[f.blocks[bi].pos].rehash;
					Bytes h = ref_hash(c, d.substr(off, len), rehash);
					if (h.empty() || h != f.blocks[bi].hash) same = false;
				}
				if (same) correct_hashed = true;
			}
		}
		// a file reported recovered: every block with a recorded hash is right, and a block without one (pending at the
		// last sync, so damage there is undetectable) is either right or was not produced by this fix
		bool recovered_ok = correct;
		if (!recovered_ok && present) for (auto g : good) {
			const Bytes& d = ita->second.data;
			if (g->size() != d.size()) continue;
			const Bytes* was = itb != before.end() && itb->second.type == 'f' ? &itb->second.data : nullptr;
			bool ok = true;
			for (size_t bi = 0; bi < f.blocks.size() && ok; ++bi) {
				uint64_t off = (uint64_t)bi * c.block_size;
				uint64_t len = std::min<uint64_t>(c.block_size, d.size() - off);
				if (memcmp(d.data() + off, g->data() + off, len) == 0) continue;
				if (f.blocks[bi].state != BS_CHG) {
					bool rehash = c.info[f.blocks[bi].pos].present && c.info[f.blocks[bi].pos].rehash;
					Bytes h = ref_hash(c, d.substr(off, len), rehash);
					if (!h.empty() && h == f.blocks[bi].hash) continue; // hashes to the recorded (possibly inherited) hash
					ok = false;
					break;
				}
				bool untouched = was && was->size() >= off + len && memcmp(was->data() + off, d.data() + off, len) == 0;
				if (!untouched) ok = false;
			}
			if (ok) { recovered_ok = true; x.probe("c05.recovered_with_preexisting_unverifiable_damage"); }
		}
		// the same inode under two names that the content records as two different files (a hard link made after the sync over
		// a recorded name): fix repairs each name in place and the second repair rewrites the first
		auto shared_inode_note = [&]() -> std::string {
			std::string shared;
			for (auto& g : c.files) {
				const DiskCfg* dg = x.sb.disk(c.maps[g.map_idx].name);
				if (!dg || &g == &f) continue;
				auto itg = after.find(dg->top + "/" + g.sub);
				if (itg != after.end() && itg->second.type == 'f' && ita != after.end() && itg->second.vino == ita->second.vino && itg->second.vino != 0) shared = dg->top + "/" + g.sub;
			}
			if (shared.empty()) return "";
			for (auto& l : c.links) if (l.hard) { const DiskCfg* dl = x.sb.disk(c.maps[l.map_idx].name); if (dl && (dl->top + "/" + l.sub == shared || dl->top + "/" + l.sub == rel)) return ""; }
			return " [it shares its inode with " + shared + ", recorded as a different file: fixing one name in place rewrote the other]";
		};
		if (reported_rec.count(rel) && !recovered_ok) {
			// which kind of block carries the wrong bytes
			std::string kind;
			if (present && !good.empty() && good[0]->size() == ita->second.data.size()) {
				const Bytes& d = ita->second.data;
				bool hashed_wrong = false, pending_wrong = false, pending_unique = false, pending_invalid = false, wrote_zero = false, past_hash_matches_written = false;
				for (size_t bi = 0; bi < f.blocks.size(); ++bi) {
					uint64_t off = (uint64_t)bi * c.block_size;
					uint64_t len = std::min<uint64_t>(c.block_size, d.size() - off);
					if (memcmp(d.data() + off, good[0]->data() + off, len) == 0) continue;
					if (f.blocks[bi].state != BS_CHG) hashed_wrong = true;
					else {
						pending_wrong = true;
						const Bytes& h = f.blocks[bi].hash;
						bool zero = h == Bytes(h.size(), '\xff'), inval = h == Bytes(h.size(), '\0');
						if (!zero && !inval) {
							pending_unique = true;
							// upstream rejects a rebuilt block that still hashes to the past hash ("maybe old data"); the known defect
							// is that the hash does NOT match although the bytes are old (other length / hash already overwritten)
							bool rehash = c.info[f.blocks[bi].pos].present && c.info[f.blocks[bi].pos].rehash;
							Bytes hw = ref_hash(c, d.substr(off, len), rehash);
							if (!hw.empty() && hw == h) past_hash_matches_written = true;
						}
						if (inval) pending_invalid = true;
						if (d.substr(off, len) == Bytes(len, '\0')) wrote_zero = true;
					}
				}
				if (hashed_wrong) kind = " [a block with a recorded hash is wrong]";
				else if (pending_wrong && x.sb.cfg.hash_size < 16) kind = " [pending block, reduced hash size: the zero/invalid hash markers are not recognised]";
				else if (pending_wrong && pending_unique && past_hash_matches_written) kind = " [pending block whose past hash matches the written bytes: the old-data test was bypassed]";
				else if (pending_wrong && pending_unique) kind = " [pending block carrying a past hash: fix wrote the previous occupant of the position]";
				// upstream accepts a rebuilt block under the 'zero' marker only when it is NOT all zeros ("surely the state after
				// the sync") and never under the 'invalid' marker: the other combinations are not the known stale-parity shape
				else if (pending_wrong && pending_invalid) kind = " [pending block with the invalid-hash marker accepted]";
				else if (pending_wrong && wrote_zero) kind = " [pending block with the zero marker rebuilt as all zeros and accepted]";
				else if (pending_wrong) kind = " [pending block with the zero marker rebuilt from stale non-zero parity]";
			}
			if (getenv("SNAPSIM_DEBUG")) {
				fprintf(stderr, "damage: %s\n", x.vars.count("c01_damage") ? x.vars["c01_damage"].dump().c_str() : "-");
				if (present && !good.empty()) for (size_t bi = 0; bi < f.blocks.size(); ++bi) {
					uint64_t off = (uint64_t)bi * c.block_size;
					uint64_t len = std::min<uint64_t>(c.block_size, std::min(ita->second.data.size(), good[0]->size()) - off);
					bool same = memcmp(ita->second.data.data() + off, good[0]->data() + off, len) == 0;
					bool zero = ita->second.data.substr(off, len) == Bytes(len, '\0');
					fprintf(stderr, "  block %zu pos %u state %d hash %s : %s%s\n", bi, f.blocks[bi].pos, f.blocks[bi].state, hex(f.blocks[bi].hash.data(), 4).c_str(), same ? "same" : "DIFFERENT", zero ? " (all zero on disk)" : "");
				}
			}
			if (present && !shared_inode_note().empty()) kind = shared_inode_note();
			x.violation(P, "recovered-with-wrong-data", cl + ": " + rel + strf(" is reported recovered but %s", present ? "its bytes are not the recorded version" : "it does not exist") + kind);
		}
		else if (!correct_hashed && !is_reported && !aborted) {
			if (!present) {
				// a missing file that fix did not even try (e.g. unsynced and -e) is not "left under its name"
				if (touched || !filtered) x.violation(P, "missing-not-reported", cl + ": " + rel + " is still missing and was not reported unrecoverable");
			} else
				x.violation(P, "wrong-data-not-reported", cl + ": " + rel + " holds other bytes than the recorded version and was not reported unrecoverable" + shared_inode_note());

		}
		if (is_reported) {
			x.probe("c05.unrecoverable_reported");
			if (r.exit_code == 0) x.violation(P, "unrecoverable-exit-ok", cl + ": " + rel + " reported unrecoverable but the exit status is 0");
			if (sum_unrec == 0 && !aborted) x.violation(P, "unrecoverable-not-counted", cl + ": " + rel + " reported unrecoverable but summary:error_unrecoverable is 0");
			if (!after.count(rel + ".unrecoverable") && present == false) x.probe("c05.unrecoverable_without_rename");
		}
		if (correct && reported_rec.count(rel)) x.probe("c05.recovered_correctly");
	}
	// files unknown to the content file are never written
	std::set<std::string> known;
	for (auto& f : c.files) { const DiskCfg* d = x.sb.disk(c.maps[f.map_idx].name); if (d) known.insert(d->top + "/" + f.sub); }
	for (auto& l : c.links) { const DiskCfg* d = x.sb.disk(c.maps[l.map_idx].name); if (d) known.insert(d->top + "/" + l.sub); }
	std::set<uint64_t> known_inodes;
	for (auto& kv : before) if (kv.second.type == 'f' && known.count(kv.first)) known_inodes.insert(kv.second.vino);
	for (auto& kv : before) {
		if (kv.second.type != 'f' || tool_file(x.sb, kv.first) || known.count(kv.first)) continue;
		if (ends_with(kv.first, ".unrecoverable")) continue;
		if (known_inodes.count(kv.second.vino)) continue; // another name (hard link) of a recorded file
		auto it = after.find(kv.first);
		if (it == after.end() || it->second.data != kv.second.data) x.violation(P, "unknown-file-written", cl + ": " + kv.first + " is not recorded in the content file and was modified");
	}
	if (judged) { ++x.out.nontrivial_cases; x.out.nontrivial = true; x.out.case_hashes.insert(mix64(x.plan->seed, x.out.cases)); }
	x.probe("c05.files_judged", judged);
	Json smp = Json::obj();
	smp.set("family", "fixsafe").set("seed", x.plan->seed).set("command", cl).set("files_judged", judged).set("reported_unrecoverable", (uint64_t)reported_unrec.size()).set("reported_recovered", (uint64_t)reported_rec.size())
		.set("damage", x.vars.count("c01_damage") ? x.vars["c01_damage"] : Json());
	x.out.sample = smp;
}

// "pending neighbours": files that were only touched (or rewritten with the same bytes) share stripes with files newly added on
// other disks; the sync is stopped right after it saved the content that records all of them as pending (no parity updated yet);
// then pending and/or synced files are lost and fix runs.
static RunPlan gen_fixsafe_neighbours(uint64_t seed, int tier)
{
	Rng rng(seed);
	RunPlan p;
	p.family = "fixsafe";
	p.seed = seed;
	p.cfg = gen_config(rng, 4, 4, false);
	while (p.cfg.disks.size() < 2) { DiskCfg d; d.name = strf("d%zu", p.cfg.disks.size() + 1); d.top = d.name; p.cfg.disks.push_back(d); }
	if (rng.chance(3, 4)) p.cfg.hash_size = 16;
	p.cfg.autosave_at = 0;
	(void)tier;
	unsigned bs = p.cfg.block_size();
	size_t nd = p.cfg.disks.size();
	// the first disks hold synced files, the others little or nothing, so that new files there land on low positions
	for (size_t d = 0; d < nd; ++d) {
		int n = d < (nd + 1) / 2 ? (int)rng.range(1, 3) : (int)rng.range(0, 1);
		for (int i = 0; i < n; ++i)
			p.ops.push_back(Json::obj().set("k", "create").set("d", (int64_t)d).set("name", strf("base%d", i)).set("size", rng.range(1, 5) * bs - (rng.chance(1, 2) ? rng.range(0, bs - 1) : 0)).set("seed", rng.next() >> 1));
	}
	CmdSpec base;
	base.cmd = "sync";
	p.ops.push_back(op_cmd(gen_sched(rng, base), "ok"));
	// touch / rewrite-with-same-bytes some synced files, add new files everywhere
	for (size_t d = 0; d < nd; ++d) {
		if (rng.chance(1, 2)) p.ops.push_back(Json::obj().set("k", rng.chance(1, 2) ? "touch" : "sametouch").set("d", (int64_t)d).set("sub", "base0"));
		int n = (int)rng.range(0, 2);
		for (int i = 0; i < n; ++i)
			p.ops.push_back(Json::obj().set("k", "create").set("d", (int64_t)d).set("name", strf("new%d", i)).set("size", rng.range(1, 4) * bs - (rng.chance(1, 2) ? rng.range(0, bs - 1) : 0)).set("seed", rng.next() >> 1));
	}
	// stop the sync early: right after the content save that records the pending blocks, or after a few stripes
	CmdSpec s;
	s.cmd = "sync";
	s = gen_sched(rng, s);
	if (rng.chance(1, 2)) { s.sig_at_io = (unsigned)rng.range(1, 4); s.sig_no = 2; }
	else s.opts = { "-B", strf("%d", (int)rng.range(1, 3)) };
	p.ops.push_back(op_cmd(s));
	// lose pending and/or synced files
	int lose = (int)rng.range(1, 3);
	for (int i = 0; i < lose; ++i)
		p.ops.push_back(Json::obj().set("k", "delete").set("d", (int64_t)rng.below(nd)).set("sub", rng.chance(2, 3) ? strf("new%d", (int)rng.below(2)) : std::string("base0")));
	CmdSpec f;
	f.cmd = "fix";
	if (rng.chance(1, 5)) f.opts = { "-m" };
	p.ops.push_back(Json::obj().set("k", "c05_fix").set("spec", gen_sched(rng, f).to_json()));
	return p;
}

// bad blocks found by a scrub, then fix -e / -b: several bad blocks per file, files fragmented over the parity with blocks of
// other files of the same disk in between (fix closes and re-opens a file each time it comes back to it)
static RunPlan gen_fixsafe_badblocks(uint64_t seed, int tier)
{
	Rng rng(seed);
	RunPlan p;
	p.family = "fixsafe";
	p.seed = seed;
	p.cfg = gen_config(rng, 3, 3, true);
	if (rng.chance(3, 4)) p.cfg.hash_size = 16;
	p.cfg.autosave_at = 0;
	(void)tier;
	unsigned bs = p.cfg.block_size();
	size_t nd = p.cfg.disks.size();
	auto sync = [&]() { CmdSpec s; s.cmd = "sync"; s.opts = { "-E", "-Z" }; p.ops.push_back(op_cmd(gen_sched(rng, s), "ok")); };
	// fragmentation by history: small files, sync, some deleted, sync, larger files that fill the holes and go on elsewhere
	for (size_t d = 0; d < nd; ++d)
		for (int i = 0; i < (int)rng.range(2, 4); ++i)
			p.ops.push_back(Json::obj().set("k", "create").set("d", (int64_t)d).set("name", strf("s%d", i)).set("size", rng.range(1, 3) * bs - (rng.chance(1, 3) ? rng.range(0, bs - 1) : 0)).set("seed", rng.next() >> 1));
	sync();
	for (size_t d = 0; d < nd; ++d) {
		p.ops.push_back(Json::obj().set("k", "delete").set("d", (int64_t)d).set("sub", strf("s%d", (int)rng.below(2))));
		if (rng.chance(1, 2)) p.ops.push_back(Json::obj().set("k", "delete").set("d", (int64_t)d).set("sub", "s2"));
	}
	sync();
	for (size_t d = 0; d < nd; ++d)
		for (int i = 0; i < (int)rng.range(1, 2); ++i)
			p.ops.push_back(Json::obj().set("k", "create").set("d", (int64_t)d).set("name", strf("big%d", i)).set("size", rng.range(4, 9) * bs - (rng.chance(1, 3) ? rng.range(0, bs - 1) : 0)).set("seed", rng.next() >> 1));
	sync();
	// silent damage: several blocks, often of the same file and of its neighbours on the same disk
	int64_t dd = (int64_t)rng.below(nd);
	int hits = (int)rng.range(2, 5);
	for (int i = 0; i < hits; ++i)
		p.ops.push_back(Json::obj().set("k", "silent").set("d", rng.chance(3, 4) ? dd : (int64_t)rng.below(nd)).set("f", (int64_t)rng.below(4)).set("at", rng.next() >> 8));
	CmdSpec sc;
	sc.cmd = "scrub";
	sc.opts = { "-p", "full" };
	Json so = op_cmd(gen_sched(rng, sc));
	so.set("no_parity_oracle", 1);
	p.ops.push_back(so);
	CmdSpec f;
	f.cmd = "fix";
	f.opts = { rng.chance(3, 4) ? "-e" : "-b" };
	p.ops.push_back(Json::obj().set("k", "c05_fix").set("spec", gen_sched(rng, f).to_json()));
	return p;
}

static RunPlan gen_fixsafe(uint64_t seed, int tier)
{
	if ((seed % 3) == 0) return gen_fixsafe_neighbours(seed, tier);
	if ((seed % 5) == 1) return gen_fixsafe_badblocks(seed, tier);
	Rng rng(seed);
	RunPlan p;
	p.family = "fixsafe";
	p.seed = seed;
	p.cfg = gen_config(rng, 4, 3, true);
	if (rng.chance(2, 3)) p.cfg.hash_size = 16;
	p.cfg.autosave_at = 0;
	for (auto& o : gen_populate(rng, p.cfg, 2, 5)) p.ops.push_back(o);
	CmdSpec base;
	base.cmd = "sync";
	p.ops.push_back(op_cmd(gen_sched(rng, base), "ok"));
	int rounds = (int)rng.range(1, tier ? 3 : 2);
	for (int k = 0; k < rounds; ++k) {
		for (auto& o : gen_mutations(rng, p.cfg, (int)rng.range(1, 5))) p.ops.push_back(o);
		CmdSpec s;
		int how = (int)rng.below(8);
		if (how <= 1) {
			s = gen_sync_variant(rng, p.cfg);
			p.ops.push_back(op_cmd(s));
		} else if (how <= 5) {
			// a stripe skipped by an error: a file changes / disappears / is unreadable while sync is at it
			s.cmd = "sync";
			s = gen_sched(rng, s);
			static const int actions[] = { CA_TOUCH, CA_REMOVE, CA_TRUNCATE, CA_APPEND, CA_REWRITE, 100, 101 };
			int a = actions[rng.below(7)];
			p.ops.push_back(Json::obj().set("k", "c05_sync_change").set("spec", s.to_json()).set("d", (int64_t)rng.below(p.cfg.disks.size())).set("f", (int64_t)rng.below(32))
				.set("action", a).set("nth", (int)rng.below(2)).set("asize", rng.range(0, 3 * p.cfg.block_size())).set("aseed", rng.next() >> 1));
		} else if (how == 6) {
			s.cmd = "sync";
			s.opts = { "--test-kill-after-sync" };
			p.ops.push_back(op_cmd(gen_sched(rng, s)));
		} else {
			s.cmd = "sync";
			s.opts = { "-B", strf("%d", (int)rng.range(1, 5)) };
			p.ops.push_back(op_cmd(gen_sched(rng, s)));
		}
	}
	// more changes after the last (possibly incomplete) sync
	if (rng.chance(1, 2)) for (auto& o : gen_mutations(rng, p.cfg, (int)rng.range(1, 3))) p.ops.push_back(o);
	// any amount of damage
	p.ops.push_back(Json::obj().set("k", "c01_damage").set("seed", rng.next() >> 1).set("mode", (int)rng.below(3) == 0 ? 0 : 1).set("tries", rng.range(2, 16)).set("lose_content", 0).set("nolimit", 1).set("parity_only_hashed", 1));
	CmdSpec f;
	f.cmd = "fix";
	switch (rng.below(8)) {
	case 0: f.opts = { "-m" }; break;
	case 1: f.opts = { "-e" }; break;
	case 2: f.opts = { "-f", rng.chance(1, 2) ? "dir/" : "*.txt" }; break;
	case 3: f.opts = { "-d", strf("d%d", (int)rng.range(1, (int64_t)p.cfg.disks.size())) }; break;
	case 4: f.opts = { "-b" }; break;
	default: break;
	}
	f = gen_sched(rng, f);
	p.ops.push_back(Json::obj().set("k", "c05_fix").set("spec", f.to_json()));
	return p;
}

static struct RegFixsafe {
	RegFixsafe()
	{
		Exec::register_op("c05_sync_change", op_c05_sync_change);
		Exec::register_op("c05_fix", op_c05_fix);
		Family f;
		f.name = "fixsafe";
		f.prop = "C05";
		f.level = "exploration";
		f.gen = gen_fixsafe;
		register_family(f);
	}
} reg_fixsafe;
