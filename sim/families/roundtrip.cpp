// family roundtrip (C10): saving and reloading the array state is lossless.
// After every command of a simulated history (clock frozen): (1) test-rewrite reproduces every content copy byte for byte,
// (2) the independent decoder's view equals the tool's own dumps (list -l, status -G -l), (3) every copy alone gives the same dumps.
// (4) content files synthesised by the independent encoder with values at varint boundaries are rewritten byte for byte
//     (plain input generation; said so in the evidence).
#include <fcntl.h>
#include <unistd.h>
#include <sys/stat.h>
#include "run.hpp"

CmdSpec gen_sync_variant(Rng& rng, const Config& cfg);

namespace {

// canonical text of what list -l / status -G -l say, and of what the decoder sees
std::string view_from_content(const Content& c)
{
	std::vector<std::string> lines;
	for (auto& f : c.files) lines.push_back(strf("file:%s:%s:%llu:%lld:%d:%llu", c.maps[f.map_idx].name.c_str(), f.sub.c_str(), (unsigned long long)f.size, (long long)f.mtime_sec, f.mtime_nsec, (unsigned long long)f.inode));
	for (auto& l : c.links) lines.push_back(strf("link_%s:%s:%s:%s", l.hard ? "hardlink" : "symlink", c.maps[l.map_idx].name.c_str(), l.sub.c_str(), l.to.c_str()));
	StripeMap sm = build_stripes(c);
	for (uint32_t p = 0; p < c.blockmax; ++p) {
		bool one_valid = false, one_invalid = false;
		for (auto& b : sm.at[p]) { if (b.file_idx >= 0) one_valid = true; if (b.file_idx < 0 || b.state != BS_BLK) one_invalid = true; }
		if (c.info[p].present) lines.push_back(strf("block:%u:%u:%s:%s:%s:%s", p, c.info[p].time & ~7u, one_valid ? "used" : "", one_invalid ? "unsynced" : "", c.info[p].bad ? "bad" : "", c.info[p].rehash ? "rehash" : ""));
		else lines.push_back(strf("block_noinfo:%u:%s:%s", p, one_valid ? "used" : "", one_invalid ? "unsynced" : ""));
	}
	std::sort(lines.begin(), lines.end());
	std::string s;
	for (auto& l : lines) s += l + "\n";
	return s;
}

std::string view_from_tool(Exec& x, bool& ok)
{
	std::vector<std::string> lines;
	CmdSpec l;
	l.cmd = "list";
	CmdResult rl = x.cmd(l, false);
	CmdSpec st;
	st.cmd = "status";
	st.opts = { "-G" };
	CmdResult rs = x.cmd(st, false);
	ok = rl.exit_code == 0 && rs.exit_code == 0;
	for (auto& t : parse_tags(rl.log)) {
		if (t.f.size() >= 7 && t.f[0] == "file") lines.push_back("file:" + t.f[1] + ":" + t.f[2] + ":" + t.f[3] + ":" + t.f[4] + ":" + t.f[5] + ":" + t.f[6]);
		if (t.f.size() >= 4 && starts_with(t.f[0], "link_")) lines.push_back(t.f[0] + ":" + t.f[1] + ":" + t.f[2] + ":" + t.f[3]);
	}
	for (auto& t : parse_tags(rs.log)) {
		if (t.f.size() >= 7 && t.f[0] == "block") lines.push_back("block:" + t.f[1] + ":" + t.f[2] + ":" + t.f[3] + ":" + t.f[4] + ":" + t.f[5] + ":" + t.f[6]);
		if (t.f.size() >= 4 && t.f[0] == "block_noinfo") lines.push_back("block_noinfo:" + t.f[1] + ":" + t.f[2] + ":" + t.f[3]);
	}
	std::sort(lines.begin(), lines.end());
	std::string s;
	for (auto& li : lines) s += li + "\n";
	return s;
}

std::string first_diff(const std::string& a, const std::string& b)
{
	std::vector<std::string> la = split(a, '\n'), lb = split(b, '\n');
	std::set<std::string> sa(la.begin(), la.end()), sb(lb.begin(), lb.end());
	for (auto& l : la) if (!sb.count(l)) return "decoder has '" + l + "'";
	for (auto& l : lb) if (!sa.count(l)) return "tool has '" + l + "'";
	return "";
}

} // namespace

static void op_c10_check(Exec& x, const Json&, int)
{
	std::vector<LoadedContent> cs = load_contents(x.sb);
	const LoadedContent* lc = first_good(cs);
	if (!lc) { x.probe("c10.no_content"); return; }
	// only states in which all copies are the same version (a killed save may leave different complete versions: C09's matter)
	for (auto& l : cs) if (l.present && l.err.empty() && l.raw != lc->raw) { x.probe("c10.copies_differ"); return; }
	bool saved = x.check_parity_every_cmd;
	x.check_parity_every_cmd = false;
	++x.out.cases;
	Snap before = x.sb.snapshot_all();
	// (2) decoder == tool dumps. Times in the future are shown truncated by neither: compare raw
	bool ok = false;
	std::string tool = view_from_tool(x, ok);
	std::string mine = view_from_content(lc->c);
	if (!ok) x.violation("C10", "dump-failed", "list/status failed on a loadable content file");
	else if (tool != mine) x.violation("C10", "decoded-state-differs-from-dumps", first_diff(mine, tool));
	// (3) every copy alone gives the same state
	if (x.sb.cfg.content.size() > 1) {
		for (size_t i = 0; i < x.sb.cfg.content.size() && i < 3; ++i) {
			// hide the others
			for (size_t k = 0; k < x.sb.cfg.content.size(); ++k) if (k != i) rename(x.sb.abs(x.sb.cfg.content[k]).c_str(), x.sb.abs(x.sb.cfg.content[k] + ".hidden").c_str());
			bool ok2 = false;
			std::string t2 = view_from_tool(x, ok2);
			for (size_t k = 0; k < x.sb.cfg.content.size(); ++k) if (k != i) rename(x.sb.abs(x.sb.cfg.content[k] + ".hidden").c_str(), x.sb.abs(x.sb.cfg.content[k]).c_str());
			if (!ok2 || t2 != tool) x.violation("C10", "copies-give-different-state", "loading only " + x.sb.cfg.content[i] + ": " + first_diff(tool, t2));
		}
		x.probe("c10.single_copy_loads");
	}
	// (1) rewriting reproduces the file byte for byte
	CmdSpec rw;
	rw.cmd = "test-rewrite";
	CmdResult rr = x.cmd(rw, false);
	if (rr.exit_code != 0) x.violation("C10", "rewrite-failed", strf("test-rewrite exit %d: ", rr.exit_code) + rr.err.substr(0, 300));
	else {
		bool future = false;
		for (auto& i : lc->c.info) if (i.present && (int64_t)i.time > x.sb.now_s) future = true;
		for (auto& rel : x.sb.cfg.content) {
			Bytes b;
			if (!x.sb.get_file(rel, b)) { x.violation("C10", "rewrite-lost-copy", rel); continue; }
			if (b != lc->raw) {
				if (future) { x.probe("c10.future_times_truncated"); continue; } // documented: times in the future are truncated when saving
				Content c2;
				std::string e = content_decode(b, c2);
				x.violation("C10", "rewrite-not-identical", rel + strf(": %zu bytes became %zu; ", lc->raw.size(), b.size()) + (e.empty() ? first_diff(view_from_content(lc->c), view_from_content(c2)) : e));
			}
		}
		x.probe("c10.rewrites");
	}
	// independent encoder agrees with the tool on tool-written files (validates the encoder used by (4))
	{
		std::vector<uint32_t> order;
		for (auto& d : x.sb.cfg.disks) for (uint32_t mi = 0; mi < lc->c.maps.size(); ++mi) if (lc->c.maps[mi].name == d.name) order.push_back(mi);
		Bytes enc = content_encode(lc->c, &order);
		if (enc == lc->raw) x.probe("c10.encoder_matches_tool");
		else x.probe("c10.encoder_differs_from_tool");
	}
	x.sb.restore_all(before);
	x.check_parity_every_cmd = saved;
	x.out.nontrivial = true;
	++x.out.nontrivial_cases;
	x.out.case_hashes.insert(hash_str(lc->raw));
	bool pending = false, deleted = false, bad = false, rehash = false, links = !lc->c.links.empty(), dirs = !lc->c.dirs.empty();
	for (auto& f : lc->c.files) for (auto& b : f.blocks) if (b.state != BS_BLK) pending = true;
	for (auto& m : lc->c.maps) if (!m.deleted.empty()) deleted = true;
	for (auto& i : lc->c.info) { if (i.present && i.bad) bad = true; if (i.present && i.rehash) rehash = true; }
	if (pending) x.probe("c10.state_with_pending_blocks");
	if (deleted) x.probe("c10.state_with_deleted_blocks");
	if (bad) x.probe("c10.state_with_bad_marks");
	if (rehash) x.probe("c10.state_with_rehash_marks");
	if (links) x.probe("c10.state_with_links");
	if (dirs) x.probe("c10.state_with_empty_dirs");
	if (lc->c.version == 3) x.probe("c10.format_v3"); else x.probe("c10.format_v2");
	if (x.out.sample.type == Json::NUL || pending) {
		Json s = Json::obj();
		s.set("family", "roundtrip").set("seed", x.plan->seed).set("content_bytes", (uint64_t)lc->raw.size()).set("version", lc->c.version).set("files", (uint64_t)lc->c.files.size()).set("pending", pending).set("deleted_runs", deleted).set("bad", bad).set("rehash", rehash);
		x.out.sample = s;
	}
}

// (4) synthesised files with boundary values
static void op_c10_synth(Exec& x, const Json& op, int)
{
	std::vector<LoadedContent> cs = load_contents(x.sb);
	const LoadedContent* lc = first_good(cs);
	if (!lc || lc->c.files.empty()) return;
	Rng r((uint64_t)op.num("seed"));
	Snap before = x.sb.snapshot_all();
	bool saved = x.check_parity_every_cmd;
	x.check_parity_every_cmd = false;
	int n = (int)op.num("n", 8);
	// per-disk sections follow the order of the data disks in the configuration file
	std::vector<uint32_t> order;
	for (auto& d : x.sb.cfg.disks) for (uint32_t mi = 0; mi < lc->c.maps.size(); ++mi) if (lc->c.maps[mi].name == d.name) order.push_back(mi);
	static const uint64_t edges[] = { 0, 1, 127, 128, 16383, 16384, 2097151, 2097152, 268435455, 268435456, 4294967295ull, 4294967296ull, (1ull << 35) - 1, 1ull << 35, (1ull << 42), (1ull << 49) - 1, (1ull << 56), (1ull << 63) - 1, 1ull << 63, ~0ull };
	for (int k = 0; k < n; ++k) {
		Content c = lc->c;
		for (auto& f : c.files) {
			if (r.chance(1, 2)) f.inode = edges[r.below(20)] + (r.chance(1, 2) ? r.below(3) : 0);
			if (r.chance(1, 2)) f.mtime_sec = (int64_t)(edges[r.below(16)] & 0x7fffffffffffffffull);
			switch (r.below(5)) { case 0: f.mtime_nsec = -1; break; case 1: f.mtime_nsec = 0; break; case 2: f.mtime_nsec = 999999999; break; case 3: f.mtime_nsec = 127; break; default: break; }
		}
		for (auto& m : c.maps) { if (r.chance(1, 2)) m.total_blocks = (uint32_t)edges[r.below(11)]; if (r.chance(1, 2)) m.free_blocks = (uint32_t)edges[r.below(11)]; }
		for (auto& p : c.parities) { if (r.chance(1, 2)) p.total_blocks = (uint32_t)edges[r.below(11)]; if (r.chance(1, 2)) p.free_blocks = (uint32_t)edges[r.below(11)]; }
		// sparse map: move the last file of the first map to a far position (long hole runs, varint boundaries of positions)
		if (r.chance(1, 2) && !c.files.empty()) {
			static const uint32_t far[] = { 127, 128, 16383, 16384, 2097151, 2097152 };
			uint32_t base = far[r.below((uint64_t)std::max<int64_t>(1, std::min<int64_t>(6, op.num("far", 4))))];
			CFile& f = c.files.back();
			if (!f.blocks.empty()) {
				uint32_t need = base + (uint32_t)f.blocks.size();
				if (need > c.blockmax) {
					c.info.resize(need);
					c.blockmax = need;
				}
				for (size_t bi = 0; bi < f.blocks.size(); ++bi) {
					uint32_t oldp = f.blocks[bi].pos;
					f.blocks[bi].pos = base + (uint32_t)bi;
					c.info[f.blocks[bi].pos] = c.info[oldp];
				}
				// positions left without any block lose their info, as the tool does when it saves
				StripeMap sm = build_stripes(c);
				if (!sm.structural.empty()) continue;
				for (uint32_t p = 0; p < c.blockmax; ++p) {
					bool any = false;
					for (auto& b : sm.at[p]) if (b.file_idx >= 0) any = true;
					if (!any) c.info[p] = CInfo();
				}
				for (auto& m : c.maps) m.deleted.clear();
				// a disk left with nothing at all (it was only remembered for its freed blocks) is not written by the tool:
				// not a shape this op synthesises
				{
					std::vector<bool> has(c.maps.size(), false);
					for (auto& f2 : c.files) has[f2.map_idx] = true;
					for (auto& l : c.links) has[l.map_idx] = true;
					for (auto& d : c.dirs) has[d.map_idx] = true;
					bool empty_map = false;
					for (bool h : has) if (!h) empty_map = true;
					if (empty_map) continue;
				}
				// a synced block needs info
				bool okinfo = true;
				for (uint32_t p = 0; p < c.blockmax; ++p) for (auto& b : sm.at[p]) if (b.file_idx >= 0 && b.state == BS_BLK && !c.info[p].present) okinfo = false;
				if (!okinfo) continue;
			}
		}
		// info_oldest must be the oldest required time
		{
			uint32_t oldest = 0;
			for (auto& i : c.info) if (i.present && (!oldest || i.time < oldest)) oldest = i.time & ~7u;
			c.info_oldest = oldest;
			for (auto& i : c.info) if (i.present) i.time &= ~7u;
		}
		Bytes enc = content_encode(c, &order);
		Content chk;
		if (!content_decode(enc, chk).empty()) continue;
		for (auto& rel : x.sb.cfg.content) write_file(x.sb.abs(rel), enc);
		CmdSpec rw;
		rw.cmd = "test-rewrite";
		CmdResult rr = x.cmd(rw, false);
		++x.out.cases;
		x.probe("c10.synthesised_files");
		if (rr.exit_code != 0) { x.violation("C10", "synthesised-file-rejected", strf("a well formed content file with boundary values is rejected: exit %d sig %d: ", rr.exit_code, rr.term_sig) + rr.err.substr(0, 300)); continue; }
		Bytes out;
		x.sb.get_file(x.sb.cfg.content[0], out);
		if (out != enc) {
			Content c2;
			std::string e = content_decode(out, c2);
			size_t at = 0;
			while (at < out.size() && at < enc.size() && out[at] == enc[at]) ++at;
			std::string ctx = strf("first difference at byte %zu: wrote %s, got back %s; ", at, hex(enc.data() + (at > 4 ? at - 4 : 0), std::min<size_t>(12, enc.size() - (at > 4 ? at - 4 : 0))).c_str(), hex(out.data() + (at > 4 ? at - 4 : 0), std::min<size_t>(12, out.size() - (at > 4 ? at - 4 : 0))).c_str());
			if (getenv("SNAPSIM_DEBUG")) { write_file("/tmp/c10_enc.bin", enc); write_file("/tmp/c10_out.bin", out); }
			x.violation("C10", "synthesised-rewrite-not-identical", strf("%zu bytes became %zu; ", enc.size(), out.size()) + ctx + (e.empty() ? first_diff(view_from_content(c), view_from_content(c2)) : e));
		}
	}
	x.sb.restore_all(before);
	x.check_parity_every_cmd = saved;
}

static RunPlan gen_roundtrip(uint64_t seed, int tier)
{
	Rng rng(seed);
	RunPlan p;
	p.family = "roundtrip";
	p.seed = seed;
	p.cfg = gen_config(rng, 5, 6, true);
	if (rng.chance(1, 4)) p.cfg.hash_size = rng.chance(1, 2) ? 4 : 2;
	if (rng.chance(1, 4)) p.cfg.autosave_at = (int)rng.range(1, 6);
	for (auto& o : gen_populate(rng, p.cfg, 0, 5)) p.ops.push_back(o);
	int rounds = (int)rng.range(2, tier ? 6 : 4);
	for (int r = 0; r < rounds; ++r) {
		if (r > 0) for (auto& o : gen_mutations(rng, p.cfg, (int)rng.range(1, 6))) p.ops.push_back(o);
		if (rng.chance(1, 4)) for (auto& o : gen_idiom(rng, p.cfg, r)) p.ops.push_back(o);
		CmdSpec s;
		switch (rng.below(8)) {
		case 0: s.cmd = "scrub"; s.opts = { "-p", strf("%d", (int)rng.range(10, 100)), "-o", "0" }; s = gen_sched(rng, s); break;
		case 1: s.cmd = "touch"; s = gen_sched(rng, s); break;
		default: s = gen_sync_variant(rng, p.cfg); break;
		}
		p.ops.push_back(op_cmd(s));
		if (r == 0 && rng.chance(1, 5)) p.ops.push_back(Json::obj().set("k", "rehash").set("seed", rng.next() >> 1));
		if (rng.chance(1, 6)) p.ops.push_back(Json::obj().set("k", "silent").set("d", (int64_t)rng.below(8)).set("f", (int64_t)rng.below(32)).set("at", rng.next() >> 8));
		p.ops.push_back(Json::obj().set("k", "c10_check"));
	}
	p.ops.push_back(Json::obj().set("k", "c10_synth").set("seed", rng.next() >> 1).set("n", tier ? 24 : 6).set("far", tier ? 6 : 4));
	return p;
}

static struct RegRoundtrip {
	RegRoundtrip()
	{
		Exec::register_op("c10_check", op_c10_check);
		Exec::register_op("c10_synth", op_c10_synth);
		Family f;
		f.name = "roundtrip";
		f.prop = "C10";
		f.level = "exploration";
		f.gen = gen_roundtrip;
		register_family(f);
	}
} reg_roundtrip;
