// util.hpp - PRNG, tiny JSON, string helpers for the snapsim driver
#pragma once
#include <cstdarg>
#include <cstdint>
#include <cstdio>
#include <cstdlib>
#include <cstring>
#include <map>
#include <memory>
#include <set>
#include <string>
#include <vector>
#include <functional>
#include <algorithm>

typedef std::string Bytes;

inline uint64_t mix64(uint64_t a, uint64_t b)
{
	uint64_t x = a ^ (b + 0x9e3779b97f4a7c15ULL + (a << 6) + (a >> 2));
	x ^= x >> 30; x *= 0xbf58476d1ce4e5b9ULL;
	x ^= x >> 27; x *= 0x94d049bb133111ebULL;
	x ^= x >> 31;
	return x;
}

inline uint64_t hash_bytes(const void* p, size_t n, uint64_t h = 0xcbf29ce484222325ULL)
{
	const unsigned char* s = (const unsigned char*)p;
	for (size_t i = 0; i < n; ++i) {
		h ^= s[i];
		h *= 0x100000001b3ULL;
	}
	return mix64(h, n);
}

inline uint64_t hash_str(const std::string& s, uint64_t h = 0xcbf29ce484222325ULL) { return hash_bytes(s.data(), s.size(), h); }

struct Rng {
	uint64_t s;
	explicit Rng(uint64_t seed = 1) : s(mix64(seed, 0xabcdef)) {}
	uint64_t next() { s += 0x9e3779b97f4a7c15ULL; return mix64(s, 0x2545F4914F6CDD1DULL); }
	// uniform in [0,n)
	uint64_t below(uint64_t n) { return n ? next() % n : 0; }
	int64_t range(int64_t lo, int64_t hi) { return lo + (int64_t)below((uint64_t)(hi - lo + 1)); } // inclusive
	bool chance(unsigned num, unsigned den) { return below(den) < num; }
	template <class T> const T& pick(const std::vector<T>& v) { return v[below(v.size())]; }
	Rng fork(uint64_t tag) { return Rng(mix64(next(), tag)); }
};

// ---------------------------------------------------------------- JSON

struct Json {
	enum Type { NUL, BOOL, NUM, STR, ARR, OBJ } type = NUL;
	bool b = false;
	int64_t i = 0;
	double d = 0;
	bool is_int = true;
	std::string s;
	std::vector<Json> a;
	std::vector<std::pair<std::string, Json>> o;

	Json() {}
	Json(bool v) : type(BOOL), b(v) {}
	Json(int v) : type(NUM), i(v), d(v) {}
	Json(unsigned v) : type(NUM), i(v), d(v) {}
	Json(int64_t v) : type(NUM), i(v), d((double)v) {}
	Json(uint64_t v) : type(NUM), i((int64_t)v), d((double)v) {}
	Json(double v) : type(NUM), i((int64_t)v), d(v), is_int(false) {}
	Json(const char* v) : type(STR), s(v) {}
	Json(const std::string& v) : type(STR), s(v) {}
	static Json arr() { Json j; j.type = ARR; return j; }
	static Json obj() { Json j; j.type = OBJ; return j; }

	Json& set(const std::string& k, const Json& v)
	{
		type = OBJ;
		for (auto& kv : o)
			if (kv.first == k) { kv.second = v; return *this; }
		o.emplace_back(k, v);
		return *this;
	}
	Json& push(const Json& v) { type = ARR; a.push_back(v); return *this; }
	const Json* find(const std::string& k) const
	{
		for (auto& kv : o)
			if (kv.first == k) return &kv.second;
		return nullptr;
	}
	const Json& at(const std::string& k) const
	{
		static Json nul;
		const Json* j = find(k);
		return j ? *j : nul;
	}
	int64_t num(const std::string& k, int64_t def = 0) const { const Json* j = find(k); return j && j->type == NUM ? j->i : def; }
	std::string str(const std::string& k, const std::string& def = "") const { const Json* j = find(k); return j && j->type == STR ? j->s : def; }
	bool has(const std::string& k) const { return find(k) != nullptr; }

	static void esc(std::string& out, const std::string& s)
	{
		out += '"';
		for (unsigned char c : s) {
			switch (c) {
			case '"': out += "\\\""; break;
			case '\\': out += "\\\\"; break;
			case '\n': out += "\\n"; break;
			case '\r': out += "\\r"; break;
			case '\t': out += "\\t"; break;
			default:
				if (c < 0x20 || c >= 0x7f) {
					char b[8];
					snprintf(b, sizeof(b), "\\u%04x", c);
					out += b;
				} else
					out += (char)c;
			}
		}
		out += '"';
	}
	void dump(std::string& out, int ind = -1, int lvl = 0) const
	{
		auto nl = [&](int l) { if (ind >= 0) { out += '\n'; out.append((size_t)l * ind, ' '); } };
		switch (type) {
		case NUL: out += "null"; break;
		case BOOL: out += b ? "true" : "false"; break;
		case NUM: {
			char buf[40];
			if (is_int) snprintf(buf, sizeof(buf), "%lld", (long long)i);
			else snprintf(buf, sizeof(buf), "%.6g", d);
			out += buf;
			break;
		}
		case STR: esc(out, s); break;
		case ARR:
			out += '[';
			for (size_t k = 0; k < a.size(); ++k) {
				if (k) out += ',';
				nl(lvl + 1);
				a[k].dump(out, ind, lvl + 1);
			}
			if (!a.empty()) nl(lvl);
			out += ']';
			break;
		case OBJ:
			out += '{';
			for (size_t k = 0; k < o.size(); ++k) {
				if (k) out += ',';
				nl(lvl + 1);
				esc(out, o[k].first);
				out += ind >= 0 ? ": " : ":";
				o[k].second.dump(out, ind, lvl + 1);
			}
			if (!o.empty()) nl(lvl);
			out += '}';
			break;
		}
	}
	std::string dump(int ind = -1) const { std::string s; dump(s, ind); return s; }

	// --- parser (bytes > 0x7f in strings are kept as written by esc(): \u00XX -> one byte)
	struct P {
		const char* p; const char* e; bool ok = true;
		void ws() { while (p < e && (*p == ' ' || *p == '\n' || *p == '\t' || *p == '\r')) ++p; }
		Json val()
		{
			ws();
			if (p >= e) { ok = false; return Json(); }
			if (*p == '{') {
				Json j = Json::obj(); ++p; ws();
				if (p < e && *p == '}') { ++p; return j; }
				while (ok) {
					ws();
					Json k = val();
					if (k.type != STR) { ok = false; break; }
					ws();
					if (p >= e || *p != ':') { ok = false; break; }
					++p;
					Json v = val();
					j.o.emplace_back(k.s, v);
					ws();
					if (p < e && *p == ',') { ++p; continue; }
					if (p < e && *p == '}') { ++p; break; }
					ok = false;
				}
				return j;
			}
			if (*p == '[') {
				Json j = Json::arr(); ++p; ws();
				if (p < e && *p == ']') { ++p; return j; }
				while (ok) {
					j.a.push_back(val());
					ws();
					if (p < e && *p == ',') { ++p; continue; }
					if (p < e && *p == ']') { ++p; break; }
					ok = false;
				}
				return j;
			}
			if (*p == '"') {
				Json j; j.type = STR; ++p;
				while (p < e && *p != '"') {
					if (*p == '\\' && p + 1 < e) {
						++p;
						switch (*p) {
						case 'n': j.s += '\n'; break;
						case 'r': j.s += '\r'; break;
						case 't': j.s += '\t'; break;
						case 'u': {
							if (p + 4 < e) {
								char h[5] = { p[1], p[2], p[3], p[4], 0 };
								j.s += (char)strtoul(h, 0, 16);
								p += 4;
							}
							break;
						}
						default: j.s += *p;
						}
						++p;
					} else
						j.s += *p++;
				}
				if (p < e) ++p; else ok = false;
				return j;
			}
			if (!strncmp(p, "true", 4)) { p += 4; return Json(true); }
			if (!strncmp(p, "false", 5)) { p += 5; return Json(false); }
			if (!strncmp(p, "null", 4)) { p += 4; return Json(); }
			{
				char* end = 0;
				const char* q = p;
				bool isint = true;
				while (q < e && (strchr("+-0123456789.eE", *q))) { if (strchr(".eE", *q)) isint = false; ++q; }
				if (q == p) { ok = false; return Json(); }
				std::string t(p, q);
				p = q;
				if (isint) return Json((int64_t)strtoll(t.c_str(), &end, 10));
				return Json(strtod(t.c_str(), &end));
			}
		}
	};
	static bool parse(const std::string& text, Json& out)
	{
		P p{ text.data(), text.data() + text.size() };
		out = p.val();
		return p.ok;
	}
};

// ---------------------------------------------------------------- misc

inline std::string hex(const void* p, size_t n)
{
	static const char* d = "0123456789abcdef";
	std::string s;
	const unsigned char* b = (const unsigned char*)p;
	for (size_t i = 0; i < n; ++i) { s += d[b[i] >> 4]; s += d[b[i] & 15]; }
	return s;
}

inline std::string strf(const char* fmt, ...) __attribute__((format(printf, 1, 2)));
inline std::string strf(const char* fmt, ...)
{
	char buf[2048];
	va_list ap;
	va_start(ap, fmt);
	vsnprintf(buf, sizeof(buf), fmt, ap);
	va_end(ap);
	return buf;
}

inline std::vector<std::string> split(const std::string& s, char sep)
{
	std::vector<std::string> v;
	size_t b = 0;
	for (;;) {
		size_t e = s.find(sep, b);
		if (e == std::string::npos) { v.push_back(s.substr(b)); break; }
		v.push_back(s.substr(b, e - b));
		b = e + 1;
	}
	return v;
}

inline bool starts_with(const std::string& s, const std::string& p) { return s.compare(0, p.size(), p) == 0; }
inline bool ends_with(const std::string& s, const std::string& p) { return s.size() >= p.size() && s.compare(s.size() - p.size(), p.size(), p) == 0; }

bool read_file(const std::string& path, Bytes& out);
bool write_file(const std::string& path, const Bytes& data);
